//! C05 — untrusted bytes never crash the library.
//! Three explicitly bounded layers, all enumerated: B raw bytes, D deviation-bounded
//! structure-aware documents, F byte-level mutations of the repository fixtures.

use crate::engine::*;
use crate::refmodel::*;
use serde_json::{json, Value};
use sourcemap::{decode, decode_data_url, decode_slice, is_sourcemap, is_sourcemap_slice, locate_sourcemap_reference_slice, DecodedMap, RewriteOptions, SourceMap, SourceMapHermes, SourceMapIndex, SourceView};
use std::cell::Cell;
use std::sync::Mutex;
use std::time::Instant;

// ----- counting allocator (bytes requested by the current thread) --------------------

pub struct Counting;
thread_local! {
    static ALLOCATED: Cell<u64> = const { Cell::new(0) };
}
unsafe impl std::alloc::GlobalAlloc for Counting {
    unsafe fn alloc(&self, l: std::alloc::Layout) -> *mut u8 {
        let _ = ALLOCATED.try_with(|a| a.set(a.get() + l.size() as u64));
        std::alloc::System.alloc(l)
    }
    unsafe fn dealloc(&self, p: *mut u8, l: std::alloc::Layout) {
        std::alloc::System.dealloc(p, l)
    }
    unsafe fn realloc(&self, p: *mut u8, l: std::alloc::Layout, n: usize) -> *mut u8 {
        let _ = ALLOCATED.try_with(|a| a.set(a.get() + n.saturating_sub(l.size()) as u64));
        std::alloc::System.realloc(p, l, n)
    }
}
fn allocated() -> u64 {
    ALLOCATED.with(|a| a.get())
}

// ----- hang watchdog -----------------------------------------------------------------

// Time is measured as CPU time of the thread that runs the input, not as wall-clock time: how
// long a case takes on the wall depends on what else the machine is doing (a loaded or freshly
// restored sandbox once pushed a 1 s case over a 2 s wall limit), CPU time of the one thread
// does not. Wall-clock time is only a backstop for a thread that blocks without computing.
const SLOW_CPU_SECS: f64 = 10.0;
/// largest CPU time one input needed, in microseconds (reported in the evidence)
static MAX_CPU_US: std::sync::atomic::AtomicU64 = std::sync::atomic::AtomicU64::new(0);
const HANG_CPU_SECS: f64 = 60.0;
const HANG_WALL_SECS: u64 = 300;

fn cpu_of(clock: libc::clockid_t) -> f64 {
    let mut ts = libc::timespec { tv_sec: 0, tv_nsec: 0 };
    // SAFETY: plain libc call with a valid out pointer
    unsafe { libc::clock_gettime(clock, &mut ts) };
    ts.tv_sec as f64 + ts.tv_nsec as f64 * 1e-9
}
fn thread_cpu() -> f64 {
    cpu_of(libc::CLOCK_THREAD_CPUTIME_ID)
}

/// (wall start, cpu clock of the running thread, its cpu time at entry, input)
static SLOTS: Mutex<Vec<Option<(Instant, libc::clockid_t, f64, Vec<u8>)>>> = Mutex::new(Vec::new());
thread_local! {
    static SLOT: Cell<usize> = const { Cell::new(usize::MAX) };
}
fn slot_enter(input: &[u8]) {
    let mut s = SLOTS.lock().unwrap();
    let id = SLOT.with(|c| {
        if c.get() == usize::MAX {
            s.push(None);
            c.set(s.len() - 1);
        }
        c.get()
    });
    let mut clock: libc::clockid_t = 0;
    // SAFETY: pthread_self is always valid for the calling thread
    let rc = unsafe { libc::pthread_getcpuclockid(libc::pthread_self(), &mut clock) };
    assert_eq!(rc, 0, "pthread_getcpuclockid");
    s[id] = Some((Instant::now(), clock, cpu_of(clock), input.to_vec()));
}
fn slot_leave() {
    let mut s = SLOTS.lock().unwrap();
    let id = SLOT.with(|c| c.get());
    if id != usize::MAX {
        s[id] = None;
    }
}
fn start_watchdog() {
    std::thread::spawn(|| loop {
        std::thread::sleep(std::time::Duration::from_millis(500));
        let s = SLOTS.lock().unwrap();
        for e in s.iter().flatten() {
            let cpu = cpu_of(e.1) - e.2;
            if cpu >= HANG_CPU_SECS || e.0.elapsed().as_secs() >= HANG_WALL_SECS {
                // a case that does not come back: report it with its input and stop
                let root = verif_root();
                let digest = format!("{:016x}", h64(&e.3));
                let path = format!("{root}/replays/C05-{}.json", &digest[..12]);
                let body = json!({"property": "C05", "signature": "C05/hang", "what": format!("a single input did not finish after {cpu:.0} s of CPU time ({} s wall)", e.0.elapsed().as_secs()), "case": {"kind": "bytes", "bytes": e.3}});
                let _ = std::fs::write(&path, serde_json::to_string_pretty(&body).unwrap());
                println!("VIOLATION property=C05 replay={path}");
                println!("  signature: C05/hang");
                std::process::exit(1);
            }
        }
    });
}

// ----- exercising one input ----------------------------------------------------------

const MAX_LINE_FOR_SERIALISATION: u32 = 100_000;

fn probe_positions(sm: &SourceMap) -> Vec<(u32, u32)> {
    let n = sm.get_token_count() as usize;
    let mut q = vec![(0, 0), (0, u32::MAX), (u32::MAX, u32::MAX), (u32::MAX, 0)];
    let idxs: Vec<usize> = if n <= 60 { (0..n).collect() } else { (0..30).chain(n - 30..n).collect() };
    for i in idxs {
        if let Some(t) = sm.get_token(i) {
            let (l, c) = t.get_dst();
            q.extend([(l, c), (l, c.wrapping_add(1)), (l, c.wrapping_sub(1)), (l.wrapping_add(1), c), (l.wrapping_add(1), 0), (l.wrapping_sub(1), u32::MAX)]);
        }
    }
    q
}

fn function_name_texts() -> [&'static str; 4] {
    ["function a(){}\nvar b=1;a();", "function é(){}a𝒜();var é=1;", "\u{1F600}\u{1F600}\u{1F600} x\r\n\r", ""]
}

/// Read-only queries on a regular map. Each phase is guarded separately so that the
/// signature names the phase.
fn exercise_map(sm: &SourceMap, out: &mut Vec<(String, String)>) {
    let phase = |name: &str, f: &mut dyn FnMut(), out: &mut Vec<(String, String)>| {
        if let Err(p) = guarded(|| f()) {
            out.push((format!("panic/{name}/{}", panic_class(&p)), format!("{name}: {p}")));
        }
    };
    phase(
        "iterate",
        &mut || {
            let n = sm.tokens().count();
            assert_eq!(n, sm.get_token_count() as usize);
            for i in [0usize, n.wrapping_sub(1), n, usize::MAX] {
                let _ = sm.get_token(i).map(|t| (t.get_dst(), t.get_src(), t.get_source(), t.get_name(), t.to_tuple(), t.get_source_view().is_some()));
            }
            for i in [0u32, sm.get_source_count(), sm.get_name_count(), u32::MAX] {
                let _ = (sm.get_source(i), sm.get_name(i), sm.get_source_contents(i), sm.get_source_view(i).is_some());
            }
            let _ = (sm.sources().count(), sm.names().count(), sm.source_contents().count(), sm.ignore_list().count(), sm.get_file(), sm.get_source_root(), sm.get_debug_id(), sm.has_names());
        },
        out,
    );
    phase(
        "lookup",
        &mut || {
            for (l, c) in probe_positions(sm) {
                if let Some(t) = sm.lookup_token(l, c) {
                    let _ = (t.get_src(), t.get_src_col(), t.get_source(), t.get_name(), t.is_range());
                }
            }
        },
        out,
    );
    phase(
        "format",
        &mut || {
            let mut s = String::new();
            use std::fmt::Write;
            for t in sm.tokens().take(40) {
                let _ = write!(s, "{t} {t:#} {t:?}");
                s.clear();
            }
            if sm.get_token_count() < 200 {
                let _ = write!(s, "{sm:?}");
            }
        },
        out,
    );
    phase(
        "function-name",
        &mut || {
            for text in function_name_texts() {
                let sv = SourceView::new(text.into());
                for name in ["a", "é", "1x"] {
                    for (l, c) in probe_positions(sm).into_iter().take(14) {
                        let _ = sm.get_original_function_name(l, c, name, &sv);
                    }
                }
            }
        },
        out,
    );
}

fn rewrite_option_sets() -> Vec<RewriteOptions<'static>> {
    let mut v = vec![];
    for names in [true, false] {
        for contents in [true, false] {
            for prefixes in [&[][..], &["~", "a", "/"][..]] {
                v.push(RewriteOptions { with_names: names, with_source_contents: contents, strip_prefixes: prefixes, ..Default::default() });
            }
        }
    }
    v
}

fn max_line(dm: &DecodedMap) -> u32 {
    match dm {
        DecodedMap::Regular(sm) => sm.tokens().map(|t| t.get_dst_line()).max().unwrap_or(0),
        DecodedMap::Hermes(smh) => smh.tokens().map(|t| t.get_dst_line()).max().unwrap_or(0),
        DecodedMap::Index(smi) => smi.sections().map(|s| s.get_offset_line().max(s.get_sourcemap().map_or(0, max_line))).max().unwrap_or(0),
    }
}

fn exercise_decoded(dm: &DecodedMap, depth: usize, out: &mut Vec<(String, String)>) {
    match dm {
        DecodedMap::Regular(sm) => exercise_map(sm, out),
        DecodedMap::Hermes(smh) => {
            exercise_map(smh, out);
            if let Err(p) = guarded(|| {
                for t in smh.tokens().take(60) {
                    let _ = smh.get_scope_for_token(t);
                }
                for off in [0u32, 1, 7, u32::MAX] {
                    let _ = smh.get_original_function_name(off);
                    let _ = dm.get_original_function_name(0, off, None, None);
                    let _ = dm.get_original_function_name(1, off, None, None);
                }
            }) {
                out.push((format!("panic/hermes-scope/{}", panic_class(&p)), format!("hermes scope lookup: {p}")));
            }
        }
        DecodedMap::Index(smi) => {
            if let Err(p) = guarded(|| {
                let _ = (smi.get_file(), smi.get_section_count(), smi.is_for_ram_bundle(), smi.x_facebook_offsets().map(|o| o.len()), smi.x_metro_module_paths().map(|o| o.len()));
                for i in [0u32, smi.get_section_count(), u32::MAX] {
                    let _ = smi.get_section(i).map(|s| (s.get_offset(), s.get_url().map(str::len)));
                }
                let mut q = vec![(0u32, 0u32), (0, u32::MAX), (u32::MAX, u32::MAX), (u32::MAX, 0)];
                for s in smi.sections() {
                    let (l, c) = s.get_offset();
                    q.extend([(l, c), (l, c.wrapping_add(1)), (l.wrapping_add(1), 0), (l.wrapping_add(1), c), (l, u32::MAX)]);
                }
                let sv = SourceView::new("function a(){}".into());
                for (l, c) in q {
                    if let Some(t) = smi.lookup_token(l, c) {
                        let _ = (t.get_src(), t.get_source(), t.get_name());
                    }
                    let _ = dm.lookup_token(l, c);
                    let _ = smi.get_original_function_name(l, c, "a", &sv);
                }
            }) {
                out.push((format!("panic/index-lookup/{}", panic_class(&p)), format!("index lookup: {p}")));
            }
            if depth < 3 {
                for s in smi.sections().take(4) {
                    if let Some(m) = s.get_sourcemap() {
                        exercise_decoded(m, depth + 1, out);
                    }
                }
            }
            match guarded(|| smi.flatten()) {
                Err(p) => out.push((format!("panic/flatten/{}", panic_class(&p)), format!("flatten: {p}"))),
                Ok(Ok(flat)) => {
                    exercise_map(&flat, out);
                    if let Err(p) = guarded(|| {
                        for o in rewrite_option_sets().iter().take(2) {
                            let _ = smi.clone().flatten_and_rewrite(o);
                        }
                    }) {
                        out.push((format!("panic/flatten_and_rewrite/{}", panic_class(&p)), format!("flatten_and_rewrite: {p}")));
                    }
                }
                Ok(Err(_)) => {}
            }
        }
    }
    // rewriting
    let rw = guarded(|| {
        for o in rewrite_option_sets() {
            match dm {
                DecodedMap::Regular(sm) => {
                    let _ = sm.clone().rewrite(&o);
                }
                DecodedMap::Hermes(smh) => {
                    if let Ok(r) = smh.clone().rewrite(&o) {
                        for t in r.tokens().take(20) {
                            let _ = r.get_scope_for_token(t);
                        }
                        let mut sink = vec![];
                        let _ = r.to_writer(&mut sink);
                    }
                    let _ = smh.sm_clone().rewrite(&o);
                }
                DecodedMap::Index(_) => {}
            }
        }
    });
    if let Err(p) = rw {
        let kind = if matches!(dm, DecodedMap::Hermes(_)) { "rewrite-hermes" } else { "rewrite" };
        out.push((format!("panic/{kind}/{}", panic_class(&p)), format!("{kind}: {p}")));
    }
    // serialisation and re-decoding
    if depth == 0 && max_line(dm) < MAX_LINE_FOR_SERIALISATION {
        match guarded(|| {
            let mut bytes = vec![];
            dm.to_writer(&mut bytes).map_err(|e| format!("to_writer: {e}"))?;
            decode_slice(&bytes).map(|_| ()).map_err(|e| format!("decode_slice(to_writer(map)) = Err({e}); serialised: {}", String::from_utf8_lossy(&bytes[..bytes.len().min(600)])))
        }) {
            Err(p) => out.push((format!("panic/serialise/{}", panic_class(&p)), format!("to_writer / re-decode: {p}"))),
            Ok(Err(e)) => {
                let cause = if e.contains("recursion limit") {
                    "recursion-limit"
                } else if e.contains("expected DebugId") {
                    "debug-id"
                } else {
                    "other"
                };
                out.push((format!("serialised-form-does-not-decode/{cause}"), e))
            }
            Ok(Ok(())) => {}
        }
    }
}

trait SmClone {
    fn sm_clone(&self) -> SourceMap;
}
impl SmClone for SourceMapHermes {
    fn sm_clone(&self) -> SourceMap {
        let sm: &SourceMap = self;
        sm.clone()
    }
}

/// Runs every entry point on `bytes`. Returns (violations, outcome class, decoded?).
fn exercise(bytes: &[u8]) -> (Vec<(String, String)>, u64, bool) {
    let mut out = vec![];
    let t0 = thread_cpu();
    slot_enter(bytes);
    let a0 = allocated();
    let dec = guarded(|| decode_slice(bytes));
    let used = allocated() - a0;
    let budget = 16 * 1024 * 1024 + 1024 * bytes.len() as u64;
    if used > budget {
        // attribute the excess to |sourceRoot| x |sources| when that product explains it
        let product = serde_json::from_slice::<Value>(bytes)
            .ok()
            .map(|v| v["sourceRoot"].as_str().map_or(0, str::len) as u64 * v["sources"].as_array().map_or(0, Vec::len) as u64)
            .unwrap_or(0);
        let cause = if product * 4 >= used { "source-root-times-sources" } else { "other" };
        out.push((format!("allocation/decode/{cause}"), format!("decode_slice allocated {used} bytes for a {}-byte input (budget {budget}; |sourceRoot| x |sources| = {product})", bytes.len())));
    }
    let mut class = 0u64;
    let mut decoded = false;
    match &dec {
        Err(p) => out.push((format!("panic/decode/{}", panic_class(p)), format!("decode_slice: {p}"))),
        Ok(Err(e)) => class = 1 + h64(format!("{e:?}").split('(').next().unwrap_or("")) % 64,
        Ok(Ok(dm)) => {
            decoded = true;
            class = 1000 + match dm {
                DecodedMap::Regular(sm) => sm.get_token_count().min(9) as u64,
                DecodedMap::Index(i) => 100 + i.get_section_count().min(9) as u64,
                DecodedMap::Hermes(h) => 200 + h.get_token_count().min(9) as u64,
            };
            exercise_decoded(dm, 0, &mut out);
        }
    }
    // the other entry points
    let others = guarded(|| {
        let via_reader = decode(bytes);
        let _ = (SourceMap::from_slice(bytes).is_ok(), SourceMapIndex::from_slice(bytes).is_ok(), SourceMapHermes::from_slice(bytes).is_ok());
        let _ = (SourceMap::from_reader(bytes).is_ok(), SourceMapIndex::from_reader(bytes).is_ok(), SourceMapHermes::from_reader(bytes).is_ok());
        let a1 = allocated();
        let d1 = (is_sourcemap_slice(bytes), is_sourcemap(bytes));
        let _ = locate_sourcemap_reference_slice(bytes).map(|r| r.map(|r| (r.get_url().len(), r.resolve("http://x/y.js"), r.get_embedded_sourcemap().is_ok())));
        let det = allocated() - a1;
        if let Ok(s) = std::str::from_utf8(bytes) {
            if s.len() < 64 {
                let _ = sourcemap::vlq::parse_vlq_segment(s);
            }
            let _ = decode_data_url(s);
            let sv = SourceView::new(s.into());
            let _ = (sv.line_count(), sv.get_line(0), sv.get_line_slice(0, 0, 3), sv.sourcemap_reference().is_ok());
        }
        let url = format!("data:application/json;base64,{}", data_encoding::BASE64.encode(bytes));
        let via_url = decode_data_url(&url);
        (via_reader.is_ok(), via_url.is_ok(), d1, det)
    });
    match others {
        Err(p) => out.push((format!("panic/entry-points/{}", panic_class(&p)), format!("reader / typed / detection / data-url entry points: {p}"))),
        Ok((r, u, _d, det)) => {
            if det > budget {
                out.push(("allocation/detect".into(), format!("detection allocated {det} bytes for a {}-byte input", bytes.len())));
            }
            let _ = (r, u);
        }
    }
    slot_leave();
    let dt = thread_cpu() - t0;
    MAX_CPU_US.fetch_max((dt * 1e6) as u64, std::sync::atomic::Ordering::Relaxed);
    if dt > SLOW_CPU_SECS {
        out.push(("slow".into(), format!("one {}-byte input took {dt:.1} s of CPU time", bytes.len())));
    }
    (out, class, decoded)
}

fn check_bytes(bytes: &[u8], tag: &str) -> (Vec<Viol>, u64, bool) {
    let (v, class, decoded) = exercise(bytes);
    let case = json!({"kind": "bytes", "bytes": bytes, "text": String::from_utf8_lossy(&bytes[..bytes.len().min(2000)]), "layer": tag});
    (v.into_iter().map(|(s, w)| Viol::new(format!("C05/{s}"), format!("{w}\ninput ({} bytes): {}", bytes.len(), String::from_utf8_lossy(&bytes[..bytes.len().min(700)])), case.clone())).collect(), class, decoded)
}

// ----- layer D: baselines and deviations ----------------------------------------------

#[derive(Clone, Debug)]
enum Dev {
    /// set the value at a JSON pointer (creating the key if its parent object exists)
    Set(String, Value),
    Remove(String),
    /// write the key a second time at the front of the top-level object
    Dup(String, Value),
    /// wrap the whole document in n nested single-section index maps
    Nest(usize),
}

fn apply(doc: &Value, devs: &[&Dev]) -> Vec<u8> {
    let mut v = doc.clone();
    let mut dups: Vec<(String, Value)> = vec![];
    let mut nest = 0;
    for d in devs {
        match d {
            Dev::Set(ptr, val) => {
                let (parent, key) = ptr.rsplit_once('/').unwrap();
                if let Some(p) = v.pointer_mut(parent) {
                    match p {
                        Value::Object(o) => {
                            o.insert(key.to_string(), val.clone());
                        }
                        Value::Array(a) => {
                            if let Ok(i) = key.parse::<usize>() {
                                if i < a.len() {
                                    a[i] = val.clone();
                                } else {
                                    a.push(val.clone());
                                }
                            }
                        }
                        _ => {}
                    }
                }
            }
            Dev::Remove(ptr) => {
                let (parent, key) = ptr.rsplit_once('/').unwrap();
                if let Some(Value::Object(o)) = v.pointer_mut(parent) {
                    o.remove(key);
                }
            }
            Dev::Dup(k, val) => dups.push((k.clone(), val.clone())),
            Dev::Nest(n) => nest = *n,
        }
    }
    let mut text = v.to_string();
    for (k, val) in dups {
        text = format!("{{{}:{},{}", jstr(&k), val, &text[1..]);
    }
    if nest > 0 {
        let mut s = String::with_capacity(text.len() + nest * 80);
        for _ in 0..nest {
            s.push_str("{\"version\":3,\"sections\":[{\"offset\":{\"line\":0,\"column\":0},\"map\":");
        }
        s.push_str(&text);
        for _ in 0..nest {
            s.push_str("}]}");
        }
        text = s;
    }
    text.into_bytes()
}

fn baselines() -> Vec<(&'static str, Value)> {
    vec![
        (
            "regular",
            json!({"version": 3, "file": "out.js", "sourceRoot": "r", "sources": ["a.js", "b.js"], "sourcesContent": ["function a(){}", null], "names": ["x", "y"],
                   "mappings": "AAAAA,CAACC;;EACD,GCAA", "rangeMappings": "B;;C", "ignoreList": [1], "debug_id": DEBUG_ID_A}),
        ),
        (
            "index",
            json!({"version": 3, "file": "bundle.js", "sections": [
                {"offset": {"line": 0, "column": 0}, "map": {"version": 3, "sources": ["a.js"], "names": ["n"], "mappings": "AAAAA;AACA", "sourcesContent": ["a"]}},
                {"offset": {"line": 2, "column": 5}, "map": {"version": 3, "sections": [{"offset": {"line": 0, "column": 1}, "map": {"version": 3, "sources": ["c.js"], "names": [], "mappings": "AAAA;CAAC", "ignoreList": [0]}}]}},
                {"offset": {"line": 9, "column": 0}, "url": "http://x/y.map"}
            ]}),
        ),
        (
            "hermes",
            json!({"version": 3, "sources": ["a.js", "b.js", "c.js"], "names": ["n"], "mappings": "AAAAA,CCCC,CCEF",
                   "x_facebook_sources": [[{"names": ["<global>", "f"], "mappings": "AAA,CCC"}], null, [{"names": ["g"], "mappings": "AAA;EC"}]]}),
        ),
    ]
}

fn vlq_menu() -> Vec<i128> {
    vec![0, 1, -1, 1 << 31, (1 << 32) - 1, -((1 << 32) - 1), (1 << 32) + 1, (1 << 62) - 1, -((1 << 62) - 1), (1 << 63) - 1]
}

fn deviations(kind: &str) -> Vec<Dev> {
    let mut d = vec![];
    let wrong: Vec<Value> = vec![Value::Null, json!(7), json!("x"), json!([1]), json!({}), json!(-1), json!(1e300), json!([null]), json!([[], "s", 3])];
    let keys: Vec<&str> = match kind {
        "regular" => vec!["version", "file", "sourceRoot", "sources", "sourcesContent", "names", "mappings", "rangeMappings", "ignoreList", "debug_id", "debugId", "x_facebook_sources", "sections", "x_facebook_offsets", "x_metro_module_paths"],
        "index" => vec!["version", "file", "sections", "mappings", "sources", "x_facebook_offsets", "x_metro_module_paths"],
        _ => vec!["version", "sources", "names", "mappings", "x_facebook_sources", "sourcesContent"],
    };
    for k in &keys {
        d.push(Dev::Remove(format!("/{k}")));
        for w in &wrong {
            d.push(Dev::Set(format!("/{k}"), w.clone()));
        }
        d.push(Dev::Dup(k.to_string(), json!("dup")));
    }
    // numbers
    for n in [json!(0), json!(2147483648u64), json!(4294967295u64), json!(4294967296u64), json!(-1), json!(18446744073709551615u64)] {
        d.push(Dev::Set("/version".into(), n.clone()));
        if kind == "index" {
            d.push(Dev::Set("/sections/0/offset/line".into(), n.clone()));
            d.push(Dev::Set("/sections/0/offset/column".into(), n.clone()));
            d.push(Dev::Set("/sections/1/offset/line".into(), n.clone()));
            d.push(Dev::Set("/sections/1/offset/column".into(), n.clone()));
            d.push(Dev::Set("/sections/1/map/sections/0/offset/column".into(), n.clone()));
        } else {
            d.push(Dev::Set("/ignoreList".into(), json!([n])));
        }
    }
    // array length mismatches
    if kind != "index" {
        d.push(Dev::Set("/sourcesContent".into(), json!(["only-one"])));
        d.push(Dev::Set("/sourcesContent".into(), json!(["1", "2", "3", "4", "5"])));
        d.push(Dev::Set("/sources".into(), json!([])));
        d.push(Dev::Set("/sources".into(), json!([null, null, null, null])));
        // names that look like the beginning of a drive path or are just separators (the '~' prefix
        // of rewrite classifies every source name)
        d.push(Dev::Set("/sources".into(), json!(["c:", "/a/b", "c", ""])));
        d.push(Dev::Set("/sources".into(), json!(["c:/", "C:\\y", "/", "//"])));
        d.push(Dev::Set("/names".into(), json!([])));
        d.push(Dev::Set("/names".into(), json!([1, 2.5, true, null, {"a": 1}])));
        d.push(Dev::Set("/file".into(), json!({"not": "a string"})));
    }
    // mapping strings: every menu value in every field position of 1/4/5-field segments
    let mptr = if kind == "index" { "/sections/0/map/mappings" } else { "/mappings" };
    for arity in [1usize, 4, 5] {
        for pos in 0..arity {
            for v in vlq_menu() {
                let mut f = vec![0i128; arity];
                f[pos] = v;
                // three placements: alone; after a valid segment; on a later line
                d.push(Dev::Set(mptr.into(), json!(vlq_write(&f))));
                d.push(Dev::Set(mptr.into(), json!(format!("AAAA,{};{}", vlq_write(&f), vlq_write(&f)))));
            }
        }
    }
    // three and four segments carrying the same huge delta (running sums beyond 2^63 if kept in i64)
    for arity in [1usize, 4, 5] {
        for pos in 0..arity {
            for v in [(1i128 << 62) - 1, -((1i128 << 62) - 1), (1i128 << 61) + 5] {
                let mut f = vec![0i128; arity];
                f[pos] = v;
                let seg = vlq_write(&f);
                d.push(Dev::Set(mptr.into(), json!(format!("{seg},{seg},{seg},{seg}"))));
                d.push(Dev::Set(mptr.into(), json!(format!("{seg};{seg};{seg},{seg};{seg}"))));
            }
        }
    }
    // the 13-digit all-ones value and other long encodings
    for s in ["////////////f", "////////////fAAA", "A////////////f", "AAA////////////f", "gggggggggggggA", "////////////////", "g", "AAAAAA", "AA", ",,,;;;,", ";;;;;;;;;;;;;;;;;;;;AAAA", "AAAA,AAAA,AAAA,AAAA,AAAA,AAAA,AAAA,AAAA,AAAA,AAAA,AAAA,AAAA,AAAA,AAAA,AAAA,AAAA,AAAA,AAAA"] {
        d.push(Dev::Set(mptr.into(), json!(s)));
    }
    // many lines: the decoded map has a huge generated line (serialisation is skipped there)
    d.push(Dev::Set(mptr.into(), json!(format!("{}AAAA", ";".repeat(100_001)))));
    d.push(Dev::Set(mptr.into(), json!("q////////D")));
    // a line of 20 segments (so that range flags at in-line indices 8 and 16 have a token to land on)
    d.push(Dev::Set(mptr.into(), json!(std::iter::once("AAAA").chain(std::iter::repeat("CAAA").take(19)).collect::<Vec<_>>().join(","))));
    if kind != "index" {
        for s in ["B", "AAB", "AAg", "////", "A;;;;B", ";", "!", "é", "AAAAAAAAAAAAAAAAAAAAAAAAAAAAAAAAB;B;B;B", "AE", "AAQ"] {
            d.push(Dev::Set("/rangeMappings".into(), json!(s)));
        }
    }
    if kind == "index" {
        // a section whose tokens sit on line >= 1, with extreme offsets
        for (l, c) in [(0u64, 4294967295u64), (4294967295, 0), (4294967295, 4294967295), (2147483648, 2147483648), (4294967294, 1)] {
            d.push(Dev::Set("/sections/0/offset".into(), json!({"line": l, "column": c})));
            d.push(Dev::Set("/sections/1/offset".into(), json!({"line": l, "column": c})));
        }
        d.push(Dev::Set("/sections/0/map".into(), Value::Null));
        d.push(Dev::Set("/sections/0/map".into(), json!({"version": 3, "sources": ["h"], "names": [], "mappings": "AAAA", "x_facebook_sources": [null]})));
        d.push(Dev::Set("/sections/0/map/mappings".into(), json!("AAAA;;;;;;;;;;;;;;AAAA")));
        d.push(Dev::Set("/sections".into(), json!([])));
        d.push(Dev::Set("/sections/2/url".into(), json!(17)));
        d.push(Dev::Set("/x_facebook_offsets".into(), json!([0, null, 4294967295u64])));
        d.push(Dev::Set("/x_metro_module_paths".into(), json!(["a", "b"])));
    }
    for n in [1usize, 5, 39, 40, 41, 42, 43, 126, 127, 128, 129, 1000] {
        d.push(Dev::Nest(n));
    }
    // debug ids in every form the debugid parser accepts (uuid, uuid + appendix, breakpad, PDB 2.0 timestamp + age)
    for key in ["debug_id", "debugId"] {
        for v in ["012345670", "01234567-0", "0123456700000000", "+12345670", "01234567-a", "0123456789abcdef0123456789abcdefa", "0123456789ABCDEF0123456789ABCDEF", "01234567-89ab-cdef-0123-456789abcdef-ffffffff", "00000000-0000-0000-0000-000000000000", "not-a-debug-id", ""] {
            d.push(Dev::Set(format!("/{key}"), json!(v)));
        }
    }
    // a long sourceRoot together with many sources (every source is joined with the root)
    if kind != "index" {
        d.push(Dev::Set("/sourceRoot".into(), json!("r".repeat(20_000))));
        d.push(Dev::Set("/sources".into(), Value::Array(vec![Value::Null; 4_000])));
        d.push(Dev::Set("/sources".into(), Value::Array((0..4_000).map(|i| json!(format!("s{i}"))).collect())));
    }
    if kind == "hermes" {
        for v in [json!(null), json!([]), json!([null]), json!([[]]), json!([[null]]), json!([[{"names": [], "mappings": "AAA"}]]), json!([[{"names": ["f"], "mappings": "ACA"}]]), json!([[{"names": ["f"], "mappings": "A!"}]]),
                  json!([[{"names": ["f"], "mappings": "AA+/////D"}]]), json!([[{"names": ["f"], "mappings": "+/////DAA"}]]), json!([[{"names": ["f"], "mappings": "AAD,AAD"}]]), json!([[{"names": ["f"], "mappings": "AD"}]]),
                  json!([[{"names": ["f"], "mappings": "AAA"}]]), json!([[{"names": ["f"], "mappings": "AAA"}], [{"names": ["g"], "mappings": "AAA"}], null, null, null])] {
            d.push(Dev::Set("/x_facebook_sources".into(), v));
        }
        // original line 2^32-1 on a token (src_line + 1)
        d.push(Dev::Set("/mappings".into(), json!(format!("AA{}A", vlq_write(&[(1i128 << 32) - 1])))));
        d.push(Dev::Set("/mappings".into(), json!(format!("AAA{}", vlq_write(&[(1i128 << 32) - 1])))));
    }
    d
}

fn extract_inline_documents() -> Vec<Vec<u8>> {
    let mut docs = vec![];
    let Ok(rd) = std::fs::read_dir("/repo/tests") else { return docs };
    let mut files: Vec<_> = rd.flatten().map(|e| e.path()).filter(|p| p.extension().map_or(false, |e| e == "rs")).collect();
    files.sort();
    for f in files {
        let Ok(text) = std::fs::read_to_string(&f) else { continue };
        let mut rest = text.as_str();
        while let Some(i) = rest.find("r#\"") {
            rest = &rest[i + 3..];
            if let Some(j) = rest.find("\"#") {
                let doc = &rest[..j];
                if doc.contains('{') && doc.len() < 6000 {
                    docs.push(doc.as_bytes().to_vec());
                }
                rest = &rest[j + 2..];
            } else {
                break;
            }
        }
    }
    docs
}

const MUT_BYTES: [u8; 12] = [b'"', b'{', b'}', b'[', b',', b':', b';', b'0', b'A', b'/', b'\\', 0xFF];

pub fn run(run: &mut Run) -> Finish {
    let tier = run.ctx.tier;
    start_watchdog();

    // ----- layer B
    run.par_slice("B1: every byte string of length <= 2 over all 256 byte values", 1, 1 + 256 + 65536, |idx, l| {
        let k = idx & ((1 << 40) - 1);
        let bytes: Vec<u8> = if k == 0 { vec![] } else if k <= 256 { vec![(k - 1) as u8] } else { vec![((k - 257) / 256) as u8, ((k - 257) % 256) as u8] };
        let (v, class, dec) = check_bytes(&bytes, "B1");
        for x in v {
            l.violation(idx, x);
        }
        l.case(dec, class);
    });
    const ALPHA: [u8; 24] = [b'{', b'}', b'[', b']', b'"', b':', b',', b';', b'0', b'1', b'-', b'.', b'e', b'A', b'g', b'/', b'!', b'\\', b'\n', b' ', b')', b'\'', b'n', 0xC3];
    let blen = tier.pick(4usize, 6);
    let nb = crate::spaces::n_seq_upto(24, blen);
    run.par_slice("B2: every byte string of length <= 4/6 over a 24-byte JSON/VLQ-significant alphabet", 2, nb, |idx, l| {
        let bytes: Vec<u8> = crate::spaces::seq_upto_unrank(24, blen, idx & ((1 << 40) - 1)).iter().map(|&i| ALPHA[i]).collect();
        let (v, class, dec) = check_bytes(&bytes, "B2");
        for x in v {
            l.violation(idx, x);
        }
        l.case(dec, class);
        if l.wants_sample(idx) {
            l.sample(idx, json!({"layer": "B2", "bytes": String::from_utf8_lossy(&bytes)}));
        }
    });
    // mappings-string layer: every string of length <= 3/4 over a 12-character mapping alphabet inside a valid document
    const MALPHA: [u8; 12] = [b'A', b'C', b'D', b'g', b'/', b'f', b'+', b',', b';', b'!', b'B', b'E'];
    let mlen = tier.pick(4usize, 6);
    let nmap = crate::spaces::n_seq_upto(12, mlen);
    run.par_slice("B3: every mappings string of length <= 4/6 over {A,C,D,g,/,f,+,B,E,',',';','!'} inside a valid document with 1 source and 1 name, plus the same as rangeMappings", 3, nmap * 2, |idx, l| {
        let k = idx & ((1 << 40) - 1);
        let s: Vec<u8> = crate::spaces::seq_upto_unrank(12, mlen, k / 2).iter().map(|&i| MALPHA[i]).collect();
        let s = String::from_utf8(s).unwrap();
        let doc = if k % 2 == 0 {
            format!("{{\"version\":3,\"sources\":[\"a\"],\"names\":[\"n\"],\"mappings\":{}}}", jstr(&s))
        } else {
            format!("{{\"version\":3,\"sources\":[\"a\"],\"names\":[\"n\"],\"mappings\":\"AAAAA,CAAA;AAAA\",\"rangeMappings\":{}}}", jstr(&s))
        };
        let (v, class, dec) = check_bytes(doc.as_bytes(), "B3");
        for x in v {
            l.violation(idx, x);
        }
        l.case(dec, class);
    });

    // ----- layer D
    let maxdev = tier.pick(2usize, 3);
    for (bi, (kind, base)) in baselines().into_iter().enumerate() {
        let devs = deviations(kind);
        let nd = devs.len() as u64;
        run.par_slice(&format!("D/{kind}: the valid baseline and every combination of <= 2 deviations from a menu of {nd} (keys missing/null/wrong type/repeated, extreme numbers, array mismatches, VLQ menu in every field, rangeMappings, offsets, nesting depths, Hermes payloads)"), 10 + bi as u64, 1 + nd + nd * (nd - 1) / 2, |idx, l| {
            let k = idx & ((1 << 40) - 1);
            let chosen: Vec<&Dev> = if k == 0 {
                vec![]
            } else if k <= nd {
                vec![&devs[(k - 1) as usize]]
            } else {
                // unrank the pair
                let mut r = k - nd - 1;
                let mut a = 0u64;
                while r >= nd - 1 - a {
                    r -= nd - 1 - a;
                    a += 1;
                }
                vec![&devs[a as usize], &devs[(a + 1 + r) as usize]]
            };
            let bytes = apply(&base, &chosen);
            let (v, class, dec) = check_bytes(&bytes, "D");
            for x in v {
                l.violation(idx, x);
            }
            l.case(dec, class ^ (bi as u64) << 20);
            if l.wants_sample(idx) {
                l.sample(idx, json!({"layer": "D", "baseline": kind, "deviations": chosen.iter().map(|d| format!("{d:?}").chars().take(120).collect::<String>()).collect::<Vec<_>>()}));
            }
        });
        if maxdev >= 3 {
            // triples over a thinned menu (every 4th deviation) in the thorough tier
            let thin: Vec<&Dev> = devs.iter().step_by(4).collect();
            let nt = thin.len() as u64;
            run.par_slice(&format!("D/{kind}: every combination of 3 deviations over every 4th menu entry ({nt})"), 20 + bi as u64, nt * nt * nt, |idx, l| {
                let k = idx & ((1 << 40) - 1);
                let (a, b, c) = (k / (nt * nt), k / nt % nt, k % nt);
                if !(a < b && b < c) {
                    return;
                }
                let bytes = apply(&base, &[thin[a as usize], thin[b as usize], thin[c as usize]]);
                let (v, class, dec) = check_bytes(&bytes, "D3");
                for x in v {
                    l.violation(idx, x);
                }
                l.case(dec, class ^ (bi as u64) << 20);
            });
        }
    }

    // ----- layer F
    let mut small: Vec<(String, Vec<u8>)> = vec![];
    let mut large: Vec<(String, Vec<u8>)> = vec![];
    fn walk(dir: &std::path::Path, small: &mut Vec<(String, Vec<u8>)>, large: &mut Vec<(String, Vec<u8>)>) {
        let Ok(rd) = std::fs::read_dir(dir) else { return };
        let mut entries: Vec<_> = rd.flatten().map(|e| e.path()).collect();
        entries.sort();
        for p in entries {
            if p.is_dir() {
                walk(&p, small, large);
            } else if p.extension().map_or(false, |e| e == "map") {
                if let Ok(b) = std::fs::read(&p) {
                    if b.len() <= 4096 {
                        small.push((p.display().to_string(), b));
                    } else {
                        large.push((p.display().to_string(), b));
                    }
                }
            }
        }
    }
    walk(std::path::Path::new("/repo/tests/fixtures"), &mut small, &mut large);
    for (i, d) in extract_inline_documents().into_iter().enumerate() {
        small.push((format!("inline document #{i} of /repo/tests/*.rs"), d));
    }
    let ns = small.len() as u64;
    run.extra.insert("fixture_documents_small".into(), ns);
    run.extra.insert("fixture_documents_large".into(), large.len() as u64);
    let stride = tier.pick(3usize, 1);
    run.par_slice("F1: every fixture map <= 4 KiB and every inline test document: at every (quick: every 3rd) offset delete, duplicate, and replace by each of 12 menu bytes", 30, ns, |idx, l| {
        let (name, doc) = &small[(idx & 0xffff_ffff) as usize];
        let mut sub = 0u64;
        let mut one = |bytes: &[u8], l: &mut Local| {
            let (v, class, dec) = check_bytes(bytes, "F1");
            for x in v {
                l.violation_sub(idx, sub, x);
            }
            sub += 1;
            l.case(dec, class);
        };
        one(doc, l);
        for off in (0..doc.len()).step_by(stride) {
            let mut b = doc.clone();
            b.remove(off);
            one(&b, l);
            let mut b = doc.clone();
            b.insert(off, doc[off]);
            one(&b, l);
            for m in MUT_BYTES {
                if doc[off] != m {
                    let mut b = doc.clone();
                    b[off] = m;
                    one(&b, l);
                }
            }
        }
        if l.wants_sample(idx) {
            l.sample(idx, json!({"layer": "F1", "fixture": name, "bytes": doc.len()}));
        }
    });
    // B4: texts for reference discovery whose bytes around the end of the comment key are multi-byte
    let mut texts: Vec<Vec<u8>> = vec![];
    for lead in ["//# sourceMappingURL", "//@ sourceMappingURL", "//# sourceMappingUR", "//# sourceMappingURL=", "//# sourceMappingU", "//#", "//# "] {
        for ch in ["é", "→", "𝒜", "＝", "\u{a0}", "\u{2028}"] {
            for tail in ["", "x", "=x.map"] {
                for pre in ["", "a;\n", "\n\n"] {
                    texts.push(format!("{pre}{lead}{ch}{tail}").into_bytes());
                    texts.push(format!("{pre}{lead}{ch}{ch}{tail}\n").into_bytes());
                }
            }
        }
    }
    let ntexts = texts.len() as u64;
    run.par_slice("B4: reference-discovery texts: 7 prefixes of the comment key x 6 multi-byte characters (1 or 2 of them) x 3 tails x 3 preceding texts, through every entry point", 5, ntexts, |idx, l| {
        let (v, class, _) = check_bytes(&texts[(idx & 0xffff_ffff) as usize], "B4");
        for x in v {
            l.violation(idx, x);
        }
        l.case(false, class);
    });
    let mut cuts: Vec<(usize, usize)> = vec![];
    for (i, (_, doc)) in large.iter().enumerate() {
        let n = doc.len();
        let mut lens: Vec<usize> = (0..1024.min(n)).collect();
        lens.extend((1024..n.saturating_sub(1024)).step_by(tier.pick(256, 64)));
        lens.extend(n.saturating_sub(1024)..=n);
        lens.sort();
        lens.dedup();
        for c in lens {
            cuts.push((i, c));
        }
    }
    run.par_slice("F2: larger fixtures truncated at every length of the first and last KiB and every 256th/64th length between", 31, cuts.len() as u64, |idx, l| {
        let (i, c) = cuts[(idx & 0xffff_ffff) as usize];
        let (v, class, dec) = check_bytes(&large[i].1[..c], "F2");
        for x in v {
            l.violation(idx, x);
        }
        l.case(dec, class);
    });

    Finish {
        level: "exploration",
        rule: "E1 over three bounded layers, all enumerated: B every short byte string (all 256 values to length 2; a 24-byte JSON/VLQ alphabet to length 4/5; every mappings / rangeMappings string to length 4/5 over a 12-character alphabet inside a valid document); D three valid baselines (regular with range mappings, index with nested index and an unresolved section, Hermes) and every combination of <= 2 (thorough: 3 over a thinned menu) deviations from the menu; F every single-byte deletion/duplication/replacement of the repository's small fixtures and inline test documents and truncations of the large ones. Every input goes through decode_slice, decode(reader), the typed readers, is_sourcemap(_slice), locate_sourcemap_reference_slice, decode_data_url, parse_vlq_segment and SourceView; every decoded map through iteration, get_token/accessors at {0, n-1, n, MAX}, lookups at every token position +-1, (0,0), (0,MAX), (MAX,MAX), Display/Debug, get_original_function_name against 4 texts x 3 names, rewrite under 8 option sets (also SourceMapHermes::rewrite), flatten / flatten_and_rewrite, to_writer + decode_slice (when the greatest generated line < 100000). Oracle: no panic (overflow checks on), < 2 s per input (hard stop at 20 s), decode/detection allocations <= 16 MiB + 1 KiB per input byte, re-decode succeeds, the entry points agree on accept/reject. Distinct by construction within a slice; non-trivial = the input decoded to a map; class = error kind or map kind x token count.".into(),
        assumptions: vec![
            "the property quantifies over all byte strings; this check covers the three stated bounded layers only".into(),
            "allocation is measured as bytes requested by the calling thread (cumulative, not peak)".into(),
        ],
        coverage_extra: json!({"b2_max_len": blen, "mappings_max_len": mlen, "max_deviations": maxdev, "max_cpu_seconds_for_one_input": MAX_CPU_US.load(std::sync::atomic::Ordering::Relaxed) as f64 / 1e6, "slow_limit_cpu_seconds": SLOW_CPU_SECS}),
    }
}

pub fn recheck(case: &Value) -> Vec<Viol> {
    let bytes: Vec<u8> = case["bytes"].as_array().map(|a| a.iter().filter_map(|v| v.as_u64().map(|b| b as u8)).collect()).unwrap_or_default();
    check_bytes(&bytes, case["layer"].as_str().unwrap_or("replay")).0
}
