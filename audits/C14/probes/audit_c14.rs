use sourcemap::{vlq::generate_vlq_segment, SourceMapHermes};

fn vlq(nums: &[i64]) -> String {
    generate_vlq_segment(nums).unwrap()
}

// Independent reference: Metro's SourceMetadataMapConsumer
#[derive(Debug, Clone)]
struct RefEntry {
    line: i128,
    col: i128,
    name_idx: i128,
}

fn ref_vlq_decode(s: &str) -> Option<Vec<i128>> {
    const CH: &str = "ABCDEFGHIJKLMNOPQRSTUVWXYZabcdefghijklmnopqrstuvwxyz0123456789+/";
    let mut out = vec![];
    let mut cur: i128 = 0;
    let mut shift = 0u32;
    let mut pending = false;
    for c in s.chars() {
        let d = CH.find(c)? as i128;
        cur += (d & 31) << shift;
        shift += 5;
        pending = true;
        if d & 32 == 0 {
            let neg = cur & 1 == 1;
            let v = cur >> 1;
            out.push(if neg { -v } else { v });
            cur = 0;
            shift = 0;
            pending = false;
        }
        if shift > 100 {
            return None;
        }
    }
    if pending || out.is_empty() {
        return None;
    }
    Some(out)
}

fn ref_decode(mappings: &str) -> Option<Vec<RefEntry>> {
    let mut out = vec![];
    let mut line = 1i128;
    let mut name = 0i128;
    for l in mappings.split(';') {
        let mut col = 0i128;
        if l.is_empty() {
            continue;
        }
        for seg in l.split(',') {
            if seg.is_empty() {
                continue;
            }
            let v = ref_vlq_decode(seg)?;
            col += v[0];
            name += v.get(1).copied().unwrap_or(0);
            line += v.get(2).copied().unwrap_or(0);
            out.push(RefEntry {
                line,
                col,
                name_idx: name,
            });
        }
    }
    Some(out)
}

fn ref_lookup<'a>(
    entries: &[RefEntry],
    names: &'a [String],
    src_line0: u32,
    src_col: u32,
) -> Option<&'a str> {
    // last entry at or before (line+1, col)
    let t = (src_line0 as i128 + 1, src_col as i128);
    let mut best = None;
    for e in entries {
        if (e.line, e.col) <= t {
            best = Some(e);
        }
    }
    let e = best?;
    if e.name_idx < 0 {
        return None;
    }
    names.get(e.name_idx as usize).map(|s| s.as_str())
}

fn json_str(s: &str) -> String {
    serde_json::to_string(s).unwrap()
}

/// Build a map: one token per (src, line, col) on generated line 0, consecutive dst cols.
fn build_map(
    sources: &[&str],
    fb_sources: &str,
    tokens: &[(u32, u32, u32)], // src, line, col
) -> String {
    let mut m = String::new();
    let (mut ps, mut pl, mut pc) = (0i64, 0i64, 0i64);
    for (i, &(s, l, c)) in tokens.iter().enumerate() {
        if i > 0 {
            m.push(',');
        }
        m.push_str(&vlq(&[
            if i == 0 { 0 } else { 1 },
            s as i64 - ps,
            l as i64 - pl,
            c as i64 - pc,
        ]));
        ps = s as i64;
        pl = l as i64;
        pc = c as i64;
    }
    let srcs: Vec<String> = sources.iter().map(|s| json_str(s)).collect();
    format!(
        r#"{{"version":3,"sources":[{}],"names":[],"mappings":"{}","x_facebook_sources":{}}}"#,
        srcs.join(","),
        m,
        fb_sources
    )
}

fn fmap(names: &[&str], mappings: &str) -> String {
    let ns: Vec<String> = names.iter().map(|s| json_str(s)).collect();
    format!(
        r#"[{{"names":[{}],"mappings":{}}}]"#,
        ns.join(","),
        json_str(mappings)
    )
}

fn answers(sm: &SourceMapHermes, n: u32) -> Vec<(Option<String>, Option<String>)> {
    (0..n)
        .map(|i| {
            let a = sm.get_original_function_name(i).map(|s| s.to_string());
            let b = sm
                .lookup_token(0, i)
                .and_then(|t| sm.get_scope_for_token(t))
                .map(|s| s.to_string());
            (a, b)
        })
        .collect()
}

fn roundtrip(sm: &SourceMapHermes) -> SourceMapHermes {
    let mut out = vec![];
    sm.to_writer(&mut out).unwrap();
    SourceMapHermes::from_slice(&out).unwrap()
}

fn check_single(names: &[&str], mappings: &str, tokens: &[(u32, u32)]) {
    let toks: Vec<(u32, u32, u32)> = tokens.iter().map(|&(l, c)| (0, l, c)).collect();
    let json = build_map(&["a.js"], &format!("[{}]", fmap(names, mappings)), &toks);
    let sm = SourceMapHermes::from_slice(json.as_bytes()).expect("decode");
    let names_s: Vec<String> = names.iter().map(|s| s.to_string()).collect();
    let entries = ref_decode(mappings);
    let got = answers(&sm, toks.len() as u32);
    for (i, &(l, c)) in tokens.iter().enumerate() {
        let exp = entries
            .as_ref()
            .and_then(|e| ref_lookup(e, &names_s, l, c))
            .map(|s| s.to_string());
        assert_eq!(
            got[i].0, exp,
            "offset {} token ({},{}) mappings {:?} entries {:?}",
            i, l, c, mappings, entries
        );
        assert_eq!(got[i].1, exp, "token {} ({},{})", i, l, c);
    }
    let sm2 = roundtrip(&sm);
    assert_eq!(answers(&sm2, toks.len() as u32), got, "roundtrip");
}

// H1: basic multi-line, omitted fields
#[test]
fn h01_basic() {
    // entries: (1,0)->0 ; (2,4)->1 ; (2,10)->0 ; (5,2)->2
    let m = format!(
        "{};{},{};{}",
        vlq(&[0, 0, 0]),
        vlq(&[4, 1, 1]),
        vlq(&[6, -1]),
        vlq(&[2, 2, 3])
    );
    let toks: Vec<(u32, u32)> = vec![
        (0, 0),
        (0, 5),
        (1, 0),
        (1, 3),
        (1, 4),
        (1, 5),
        (1, 9),
        (1, 10),
        (1, 11),
        (2, 0),
        (3, 100),
        (4, 0),
        (4, 1),
        (4, 2),
        (4, 3),
        (100, 0),
    ];
    check_single(&["g", "f", "h"], &m, &toks);
}

// H2: position precedes all entries
#[test]
fn h02_precedes() {
    let m = vlq(&[5, 0, 2]); // (3,5)
    check_single(&["g"], &m, &[(0, 0), (1, 100), (2, 4), (2, 5), (2, 6), (3, 0)]);
}

// H3: column-only segments
#[test]
fn h03_column_only() {
    let m = format!("{},{},{}", vlq(&[0]), vlq(&[3]), vlq(&[3, 1]));
    check_single(&["a", "b"], &m, &[(0, 0), (0, 2), (0, 3), (0, 5), (0, 6), (0, 7)]);
}

// H4: name index out of range
#[test]
fn h04_name_oor() {
    let m = format!("{},{},{}", vlq(&[0, 5, 0]), vlq(&[3, -6]), vlq(&[3, 1]));
    check_single(&["a", "b"], &m, &[(0, 0), (0, 2), (0, 3), (0, 5), (0, 6), (0, 7)]);
}

// H5: name index = 2^32 (out of range) aliasing 0
#[test]
fn h05_name_2pow32() {
    let m = format!("{},{}", vlq(&[0, 1i64 << 32, 0]), vlq(&[3, -(1i64 << 32) + 1]));
    check_single(&["a", "b"], &m, &[(0, 0), (0, 2), (0, 3), (0, 5)]);
}

// H5b: name index = -2^32
#[test]
fn h05b_name_neg_2pow32() {
    let m = format!("{},{}", vlq(&[0, -(1i64 << 32), 0]), vlq(&[3, (1i64 << 32) + 1]));
    check_single(&["a", "b"], &m, &[(0, 0), (0, 2), (0, 3), (0, 5)]);
}

// H6: duplicate positions (two entries at the same position): last one wins
#[test]
fn h06_dup_positions() {
    let m = format!("{},{},{}", vlq(&[0, 0, 0]), vlq(&[4, 1]), vlq(&[0, 1]));
    check_single(&["a", "b", "c"], &m, &[(0, 0), (0, 3), (0, 4), (0, 5)]);
}

// H7: line at 2^32 boundary: token src_line = 2^32-1 (0-based) => 1-based 2^32
#[test]
fn h07_line_2pow32() {
    let m = format!("{};{}", vlq(&[0, 0, 0]), vlq(&[0, 1, (1i64 << 32) - 1]));
    check_single(
        &["a", "b"],
        &m,
        &[(0, 0), (u32::MAX - 1, 0), (u32::MAX, 0), (u32::MAX, 7)],
    );
}

// H7b: line at 2^31
#[test]
fn h07b_line_2pow31() {
    let m = format!("{};{}", vlq(&[0, 0, 0]), vlq(&[0, 1, (1i64 << 31) - 1]));
    check_single(
        &["a", "b"],
        &m,
        &[(0, 0), ((1u32 << 31) - 2, 0), ((1u32 << 31) - 1, 0), (1u32 << 31, 7)],
    );
}

// H8: column at u32::MAX and 2^31
#[test]
fn h08_col_big() {
    let m = format!(
        "{},{},{}",
        vlq(&[0, 0, 0]),
        vlq(&[1i64 << 31, 1]),
        vlq(&[(1i64 << 31) - 1, 1])
    );
    check_single(
        &["a", "b", "c"],
        &m,
        &[
            (0, 0),
            (0, (1u32 << 31) - 1),
            (0, 1u32 << 31),
            (0, u32::MAX - 1),
            (0, u32::MAX),
        ],
    );
}

// H9: extra VLQ fields beyond three are ignored
#[test]
fn h09_extra_fields() {
    let m = format!("{},{}", vlq(&[0, 0, 0, 7, 7]), vlq(&[3, 1, 0, 9]));
    check_single(&["a", "b"], &m, &[(0, 0), (0, 3), (0, 4)]);
}

// H10: leading / repeated semicolons and commas
#[test]
fn h10_empty_parts() {
    let m = format!(";;{},,{};;{};", vlq(&[0, 0, 0]), vlq(&[3, 1]), vlq(&[1, 1, 2]));
    check_single(&["a", "b", "c"], &m, &[(0, 0), (0, 3), (1, 0), (2, 0), (2, 1), (2, 2)]);
}

// H11: unparsable mapping disables only that source
#[test]
fn h11_unparsable_one_source() {
    for bad in ["!!!", "AAA,@", "AAA;g", "AAA,\u{1F600}", "gggggggggggggggggggggggA", "é"] {
        let fb = format!(
            "[{},{},{}]",
            fmap(&["x"], &vlq(&[0, 0, 0])),
            fmap(&["y"], bad),
            fmap(&["z"], &vlq(&[0, 0, 0]))
        );
        let json = build_map(
            &["a.js", "b.js", "c.js"],
            &fb,
            &[(0, 0, 0), (1, 0, 0), (2, 0, 0), (1, 5, 5), (0, 3, 3)],
        );
        let sm = SourceMapHermes::from_slice(json.as_bytes())
            .unwrap_or_else(|e| panic!("decode failed for {:?}: {:?}", bad, e));
        let got = answers(&sm, 5);
        let exp: Vec<Option<String>> = vec![
            Some("x".into()),
            None,
            Some("z".into()),
            None,
            Some("x".into()),
        ];
        for i in 0..5 {
            assert_eq!(got[i].0, exp[i], "bad={:?} i={}", bad, i);
            assert_eq!(got[i].1, exp[i], "bad={:?} i={}", bad, i);
        }
        let sm2 = roundtrip(&sm);
        assert_eq!(answers(&sm2, 5), got);
    }
}

// H12: null / empty metadata entries; metadata shorter / longer than sources
#[test]
fn h12_null_empty() {
    let fb = format!("[null,[],{}]", fmap(&["z"], &vlq(&[0, 0, 0])));
    let json = build_map(
        &["a.js", "b.js", "c.js", "d.js"],
        &fb,
        &[(0, 0, 0), (1, 0, 0), (2, 0, 0), (3, 0, 0)],
    );
    let sm = SourceMapHermes::from_slice(json.as_bytes()).unwrap();
    let got = answers(&sm, 4);
    assert_eq!(got[0].0, None);
    assert_eq!(got[1].0, None);
    assert_eq!(got[2].0.as_deref(), Some("z"));
    assert_eq!(got[3].0, None);
    let sm2 = roundtrip(&sm);
    assert_eq!(answers(&sm2, 4), got);

    // longer than sources
    let fb = format!(
        "[{},{},null]",
        fmap(&["a"], &vlq(&[0, 0, 0])),
        fmap(&["b"], &vlq(&[0, 0, 0]))
    );
    let json = build_map(&["a.js"], &fb, &[(0, 0, 0)]);
    let sm = SourceMapHermes::from_slice(json.as_bytes()).unwrap();
    assert_eq!(sm.get_original_function_name(0), Some("a"));
    let sm2 = roundtrip(&sm);
    assert_eq!(sm2.get_original_function_name(0), Some("a"));
}

// H13: metadata whose function-map slot is null: [[null]]
#[test]
fn h13_null_function_map_slot() {
    let fb = format!("[[null],{}]", fmap(&["z"], &vlq(&[0, 0, 0])));
    let json = build_map(&["a.js", "b.js"], &fb, &[(0, 0, 0), (1, 0, 0)]);
    let sm = SourceMapHermes::from_slice(json.as_bytes()).expect("decode [[null]]");
    assert_eq!(sm.get_original_function_name(0), None);
    assert_eq!(sm.get_original_function_name(1), Some("z"));
}

// H14: tokens without source; offset before first token; empty x_facebook_sources
#[test]
fn h14_no_source_tokens() {
    let json = format!(
        r#"{{"version":3,"sources":["a.js"],"names":[],"mappings":"{},{},{}","x_facebook_sources":[{}]}}"#,
        vlq(&[2]),
        vlq(&[2, 0, 0, 0]),
        vlq(&[2]),
        fmap(&["z"], &vlq(&[0, 0, 0]))
    );
    let sm = SourceMapHermes::from_slice(json.as_bytes()).unwrap();
    assert_eq!(sm.get_original_function_name(0), None);
    assert_eq!(sm.get_original_function_name(1), None);
    assert_eq!(sm.get_original_function_name(2), None);
    assert_eq!(sm.get_original_function_name(3), None);
    assert_eq!(sm.get_original_function_name(4), Some("z"));
    assert_eq!(sm.get_original_function_name(5), Some("z"));
    assert_eq!(sm.get_original_function_name(6), None);
    assert_eq!(sm.get_original_function_name(u32::MAX), None);
    let sm2 = roundtrip(&sm);
    for i in 0..8 {
        assert_eq!(
            sm.get_original_function_name(i),
            sm2.get_original_function_name(i)
        );
    }

    let json = build_map(&["a.js"], "[]", &[(0, 0, 0)]);
    let sm = SourceMapHermes::from_slice(json.as_bytes()).unwrap();
    assert_eq!(sm.get_original_function_name(0), None);
    let sm2 = roundtrip(&sm);
    assert_eq!(sm2.get_original_function_name(0), None);
}

// H15: names with unicode / empty names / names duplicate
#[test]
fn h15_names_unicode() {
    let m = format!("{},{},{}", vlq(&[0, 0, 0]), vlq(&[3, 1]), vlq(&[3, 1]));
    check_single(&["", "\u{1F600}f\"\\", ""], &m, &[(0, 0), (0, 3), (0, 6)]);
}

// tiny deterministic RNG
struct Rng(u64);
impl Rng {
    fn next(&mut self) -> u64 {
        self.0 ^= self.0 << 13;
        self.0 ^= self.0 >> 7;
        self.0 ^= self.0 << 17;
        self.0
    }
    fn below(&mut self, n: u64) -> u64 {
        self.next() % n
    }
}

// H16: randomized well-formed (strictly increasing positions) maps, multi-source, vs reference
#[test]
fn h16_random() {
    let mut rng = Rng(0x1234_5678_9abc_def1);
    for iter in 0..3000 {
        let nsrc = 1 + rng.below(3) as usize;
        let mut fb = vec![];
        let mut models: Vec<Option<(Vec<RefEntry>, Vec<String>)>> = vec![];
        for _ in 0..nsrc {
            match rng.below(8) {
                0 => {
                    fb.push("null".to_string());
                    models.push(None);
                    continue;
                }
                1 => {
                    fb.push("[]".to_string());
                    models.push(None);
                    continue;
                }
                _ => {}
            }
            let nnames = rng.below(4) as usize;
            let names: Vec<String> = (0..nnames).map(|i| format!("n{}", i)).collect();
            let nent = rng.below(8) as usize;
            let mut s = String::new();
            let (mut line, mut col, mut name) = (1i64, 0i64, 0i64);
            let mut first_on_line = true;
            let mut first = true;
            for _ in 0..nent {
                // choose next position >= strictly increasing
                let newline = !first && rng.below(3) == 0;
                let (nl, nc) = if first {
                    (1 + rng.below(3) as i64, rng.below(5) as i64)
                } else if newline {
                    (line + 1 + rng.below(3) as i64, rng.below(6) as i64)
                } else {
                    (line, col + 1 + rng.below(4) as i64)
                };
                let nn = rng.below(6) as i64 - 1; // may be out of range / negative
                if newline || first {
                    if !first {
                        s.push(';');
                        if rng.below(4) == 0 {
                            s.push(';');
                        }
                    }
                    first_on_line = true;
                    col = 0;
                }
                if !first_on_line {
                    s.push(',');
                }
                let dl = nl - line;
                let dn = nn - name;
                let dc = nc - col;
                let seg = if dl == 0 && dn == 0 && rng.below(2) == 0 {
                    vlq(&[dc])
                } else if dl == 0 && rng.below(2) == 0 {
                    vlq(&[dc, dn])
                } else if rng.below(5) == 0 {
                    vlq(&[dc, dn, dl, rng.below(9) as i64 - 4])
                } else {
                    vlq(&[dc, dn, dl])
                };
                s.push_str(&seg);
                line = nl;
                col = nc;
                name = nn;
                first = false;
                first_on_line = false;
            }
            let names_ref: Vec<&str> = names.iter().map(|s| s.as_str()).collect();
            fb.push(fmap(&names_ref, &s));
            models.push(Some((ref_decode(&s).unwrap(), names)));
        }
        let srcnames: Vec<String> = (0..nsrc).map(|i| format!("s{}.js", i)).collect();
        let srcrefs: Vec<&str> = srcnames.iter().map(|s| s.as_str()).collect();
        let ntok = 1 + rng.below(30) as usize;
        let toks: Vec<(u32, u32, u32)> = (0..ntok)
            .map(|_| {
                (
                    rng.below(nsrc as u64) as u32,
                    rng.below(12) as u32,
                    rng.below(14) as u32,
                )
            })
            .collect();
        let json = build_map(&srcrefs, &format!("[{}]", fb.join(",")), &toks);
        let sm = SourceMapHermes::from_slice(json.as_bytes()).unwrap();
        let got = answers(&sm, ntok as u32);
        for (i, &(s, l, c)) in toks.iter().enumerate() {
            let exp = models[s as usize]
                .as_ref()
                .and_then(|(e, n)| ref_lookup(e, n, l, c))
                .map(|s| s.to_string());
            assert_eq!(got[i].0, exp, "iter {} tok {} json {}", iter, i, json);
            assert_eq!(got[i].1, exp, "iter {} tok {} json {}", iter, i, json);
        }
        let sm2 = roundtrip(&sm);
        assert_eq!(answers(&sm2, ntok as u32), got, "roundtrip iter {}", iter);
    }
}

// H17: name index reaching 2^32 through deltas that each fit in 32 bits
#[test]
fn h17_name_accumulated_2pow32() {
    let d = (1i64 << 31) - 1;
    let m = format!(
        "{},{},{},{}",
        vlq(&[0, d, 0]),
        vlq(&[1, d]),
        vlq(&[1, 2]),
        vlq(&[1, 1])
    );
    // indices: 2^31-1, 2^32-2, 2^32, 2^32+1
    check_single(&["a", "b"], &m, &[(0, 0), (0, 1), (0, 2), (0, 3), (0, 4)]);
}

// H18: column 2^32 on a line (beyond any token) must not disturb earlier lookups
#[test]
fn h18_col_2pow32() {
    let m = format!("{},{}", vlq(&[0, 0, 0]), vlq(&[1i64 << 32, 1]));
    check_single(&["a", "b"], &m, &[(0, 0), (0, 5), (0, u32::MAX)]);
}

// H19: negative running name index that comes back in range
#[test]
fn h19_name_negative_then_back() {
    let m = format!("{},{},{}", vlq(&[0, -1, 0]), vlq(&[2, -1]), vlq(&[2, 3]));
    check_single(&["a", "b"], &m, &[(0, 0), (0, 2), (0, 4)]);
}

fn try_fb(fb: &str) -> Result<Vec<Option<String>>, String> {
    let json = build_map(&["a.js", "b.js"], fb, &[(0, 0, 0), (1, 0, 0)]);
    let sm = SourceMapHermes::from_slice(json.as_bytes()).map_err(|e| format!("{:?}", e))?;
    Ok((0..2)
        .map(|i| sm.get_original_function_name(i).map(|s| s.to_string()))
        .collect())
}

// H20: malformed (JSON-shape) function maps for one source
#[test]
fn h20_shape_problems() {
    let good = fmap(&["z"], &vlq(&[0, 0, 0]));
    for bad in [
        "[null]",
        r#"[{"names":["a"]}]"#,
        r#"[{"mappings":"AAA"}]"#,
        r#"[{"names":[1],"mappings":"AAA"}]"#,
        r#"[{"names":[null],"mappings":"AAA"}]"#,
        r#"[{"names":["a"],"mappings":null}]"#,
        r#"[{"names":null,"mappings":"AAA"}]"#,
        r#"[{"names":["a"],"mappings":"AAA"},null]"#,
        r#"[{"names":["a"],"mappings":"AAA","extra":1}]"#,
        r#"{}"#,
        r#""x""#,
    ] {
        let r = try_fb(&format!("[{},{}]", bad, good));
        println!("{:<50} => {:?}", bad, r);
    }
}

// H21: many tokens sharing generated positions (ties) - roundtrip stability
#[test]
fn h21_ties_roundtrip() {
    let mut rng = Rng(0xdead_beef_1234_5678);
    for _ in 0..200 {
        let fb = format!(
            "[{},{}]",
            fmap(&["x0", "x1"], &format!("{};{}", vlq(&[0, 0, 0]), vlq(&[0, 1, 3]))),
            fmap(&["y0", "y1"], &format!("{};{}", vlq(&[0, 0, 0]), vlq(&[0, 1, 2])))
        );
        // tokens with many equal dst cols
        let n = 30 + rng.below(100) as usize;
        let mut m = String::new();
        let (mut ps, mut pl, mut pc, mut pd) = (0i64, 0i64, 0i64, 0i64);
        for i in 0..n {
            if i > 0 {
                m.push(',');
            }
            let d = rng.below(6) as i64;
            let s = rng.below(2) as i64;
            let l = rng.below(6) as i64;
            let c = rng.below(3) as i64;
            m.push_str(&vlq(&[d - pd, s - ps, l - pl, c - pc]));
            pd = d;
            ps = s;
            pl = l;
            pc = c;
        }
        let json = format!(
            r#"{{"version":3,"sources":["a","b"],"names":[],"mappings":"{}","x_facebook_sources":{}}}"#,
            m, fb
        );
        let sm = SourceMapHermes::from_slice(json.as_bytes()).unwrap();
        let got = answers(&sm, 8);
        let sm2 = roundtrip(&sm);
        assert_eq!(answers(&sm2, 8), got);
        let sm3 = roundtrip(&sm2);
        assert_eq!(answers(&sm3, 8), got);
    }
}

// H22: range-mapped token: scope is looked up at the offset position
#[test]
fn h22_range_token() {
    let fb = format!(
        "[{}]",
        fmap(&["a", "b"], &format!("{},{}", vlq(&[0, 0, 0]), vlq(&[10, 1])))
    );
    let json = format!(
        r#"{{"version":3,"sources":["a.js"],"names":[],"mappings":"{}","rangeMappings":"B","x_facebook_sources":{}}}"#,
        vlq(&[0, 0, 0, 5]),
        fb
    );
    let sm = SourceMapHermes::from_slice(json.as_bytes()).unwrap();
    let mut got = vec![];
    for off in [0u32, 4, 5, 6, u32::MAX] {
        let t = sm.lookup_token(0, off).unwrap();
        let exp = if t.get_src_col() >= 10 { "b" } else { "a" };
        assert_eq!(sm.get_original_function_name(off), Some(exp), "off {}", off);
        got.push(sm.get_original_function_name(off).map(|s| s.to_string()));
    }
    let sm2 = roundtrip(&sm);
    for (i, off) in [0u32, 4, 5, 6, u32::MAX].iter().copied().enumerate() {
        assert_eq!(sm2.get_original_function_name(off).map(|s| s.to_string()), got[i]);
    }
}

// H23: sourceRoot / null sources / sourcesContent do not shift the per-source association
#[test]
fn h23_source_root_null_sources() {
    let fb = format!(
        "[{},{},{}]",
        fmap(&["x"], &vlq(&[0, 0, 0])),
        fmap(&["y"], &vlq(&[0, 0, 0])),
        fmap(&["z"], &vlq(&[0, 0, 0]))
    );
    let json = format!(
        r#"{{"version":3,"sourceRoot":"/r","sources":[null,"a.js","a.js"],"sourcesContent":[null,"x",null],"names":[],"mappings":"{},{},{}","x_facebook_sources":{}}}"#,
        vlq(&[0, 0, 0, 0]),
        vlq(&[1, 1, 0, 0]),
        vlq(&[1, 1, 0, 0]),
        fb
    );
    let sm = SourceMapHermes::from_slice(json.as_bytes()).unwrap();
    let exp = [Some("x"), Some("y"), Some("z")];
    for i in 0..3 {
        assert_eq!(sm.get_original_function_name(i), exp[i as usize]);
    }
    let sm2 = roundtrip(&sm);
    for i in 0..3 {
        assert_eq!(sm2.get_original_function_name(i), exp[i as usize]);
    }
}

// H24: junk header + from_reader path agree with from_slice
#[test]
fn h24_reader() {
    let fb = format!("[{}]", fmap(&["x"], &vlq(&[0, 0, 0])));
    let json = build_map(&["a.js"], &fb, &[(0, 0, 0)]);
    let sm = SourceMapHermes::from_reader(json.as_bytes()).unwrap();
    assert_eq!(sm.get_original_function_name(0), Some("x"));
    let with_header = format!(")]}}'\n{}", json);
    let sm = SourceMapHermes::from_reader(with_header.as_bytes()).unwrap();
    assert_eq!(sm.get_original_function_name(0), Some("x"));
}
