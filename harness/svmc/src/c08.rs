//! C08 — index maps: section lookup and flattening describe the same mapping.

use crate::c01::construct_doc;
use crate::engine::*;
use crate::refmodel::*;
use crate::spaces::*;
use serde_json::{json, Value};
use sourcemap::DecodedMap;
use std::collections::BTreeMap;

const OFFS: [(u32, u32); 6] = [(0, 0), (0, 4), (1, 0), (1, 3), (2, 2), (5, 0)];

fn pool() -> Vec<RMap> {
    let m = |sources: &[&str], toks: Vec<RTok>| RMap { sources: sources.iter().map(|s| s.to_string()).collect(), names: vec!["n".into(), "m".into()], tokens: toks, ..Default::default() };
    vec![
        m(&["a"], vec![]),
        m(&["a", "b"], vec![RTok::new(0, 0, Some((0, 0, 0, None))), RTok::new(0, 3, Some((1, 1, 1, Some(0))))]),
        m(&["a"], vec![RTok::new(0, 1, Some((0, 5, 5, Some(1)))), RTok::new(1, 0, Some((0, 6, 0, None))), RTok::new(1, 2, None)]),
        m(&["a", "b"], vec![RTok::new(0, 2, Some((0, 0, 0, None))), RTok::new(0, 2, Some((1, 1, 1, None)))]),
        RMap { contents: vec![Some("CA".into())], ..m(&["a"], vec![RTok::new(0, 0, Some((0, 2, 2, None)))]) },
        RMap { ignore: vec![1], contents: vec![None, Some("LIB".into())], ..m(&["a", "lib"], vec![RTok::new(0, 1, Some((1, 0, 0, None))), RTok::new(0, 2, Some((0, 0, 0, None)))]) },
        m(&["a"], vec![RTok { gl: 0, gc: 0, src: Some((0, 0, 10, None)), range: true }, RTok { gl: 1, gc: 1, src: Some((0, 1, 20, Some(0))), range: true }]),
        RMap { root: Some("r/".into()), ..m(&["x"], vec![RTok::new(0, 2, None), RTok::new(0, 3, Some((0, 9, 9, None)))]) },
        // the same source names as other pool maps, with different contents
        RMap { contents: vec![Some("OTHER-A".into()), Some("OTHER-B".into())], ..m(&["a", "b"], vec![RTok::new(0, 1, Some((1, 3, 3, None))), RTok::new(0, 2, Some((0, 4, 4, Some(1))))]) },
        // a source that other pool maps carry with contents, here only ignore-listed
        RMap { ignore: vec![0], ..m(&["a"], vec![RTok::new(0, 0, Some((0, 8, 8, None))), RTok::new(1, 1, Some((0, 9, 0, None)))]) },
        // nothing on the map's first line (the column offset applies to line 0 of the section, not to
        // the line of its first token)
        m(&["a"], vec![RTok::new(1, 2, Some((0, 3, 3, None))), RTok::new(1, 6, Some((0, 3, 7, Some(0))))]),
        // an ignore-listed source without any token (its flag must not land on another source)
        RMap { ignore: vec![0], ..m(&["unused", "b"], vec![RTok::new(0, 1, Some((1, 7, 7, None)))]) },
    ]
}

/// Flattened model: tokens with resolved names, contents and ignore flags by source name.
#[derive(Clone, Debug, Default)]
struct Flat {
    tokens: Vec<OTok>,
    /// source name -> (first contents seen, ignore-listed by any contributing map)
    sources: BTreeMap<String, (Option<String>, bool)>,
}

fn flat_of_regular(m: &RMap) -> Flat {
    let o = m.obs();
    let mut f = Flat { tokens: o.tokens.clone(), ..Default::default() };
    for t in m.sorted_tokens() {
        if let Some((s, _, _, _)) = t.src {
            let name = o.sources[s as usize].clone();
            let e = f.sources.entry(name).or_insert((None, false));
            if e.0.is_none() {
                e.0 = o.contents[s as usize].clone();
            }
            if m.ignore.contains(&s) {
                e.1 = true;
            }
        }
    }
    f
}

/// RFlatten. `Err` = an unresolved section somewhere.
fn rflatten(d: &RDoc) -> Result<Flat, ()> {
    match d {
        RDoc::Regular(m) | RDoc::Hermes(m, _) => Ok(flat_of_regular(m)),
        RDoc::Index(ix) => {
            let mut out = Flat::default();
            for s in &ix.sections {
                let inner = rflatten(s.map.as_deref().ok_or(())?)?;
                for t in inner.tokens {
                    out.tokens.push(OTok { gl: t.gl + s.off.0, gc: if t.gl == 0 { t.gc + s.off.1 } else { t.gc }, ..t });
                }
                for (name, (c, ig)) in inner.sources {
                    let e = out.sources.entry(name).or_insert((None, false));
                    if e.0.is_none() {
                        e.0 = c;
                    }
                    e.1 |= ig;
                }
            }
            Ok(out)
        }
    }
}

/// All acceptable answers (ties) of a lookup on a document: (source name, orig line, orig col, name).
type Hit = (Option<String>, u32, u32, Option<String>);

fn rlookup_doc(d: &RDoc, q: (u32, u32)) -> Vec<Hit> {
    match d {
        RDoc::Regular(m) | RDoc::Hermes(m, _) => {
            let toks = m.obs().tokens;
            let pos: Vec<(u32, u32)> = toks.iter().map(|t| (t.gl, t.gc)).collect();
            match rlookup(&pos, q) {
                None => vec![],
                Some(i) => toks
                    .iter()
                    .filter(|t| (t.gl, t.gc) == pos[i])
                    .map(|t| {
                        let shift = if t.range && t.gl == q.0 { q.1 - t.gc } else { 0 };
                        match &t.src {
                            Some((s, l, c, n)) => (Some(s.clone()), *l, c.saturating_add(shift), n.clone()),
                            None => (None, 0, 0, None),
                        }
                    })
                    .collect(),
            }
        }
        RDoc::Index(ix) => {
            let sec = ix.sections.iter().filter(|s| s.off <= q).max_by_key(|s| s.off);
            match sec {
                None => vec![],
                Some(s) => match &s.map {
                    None => vec![],
                    Some(m) => rlookup_doc(m, (q.0 - s.off.0, if q.0 == s.off.0 { q.1 - s.off.1 } else { q.1 })),
                },
            }
        }
    }
}

fn hit_of(t: &sourcemap::Token<'_>) -> Hit {
    if t.has_source() {
        (t.get_source().map(str::to_string), t.get_src_line(), t.get_src_col(), t.get_name().map(str::to_string))
    } else {
        (None, 0, 0, None)
    }
}

fn well_formed(d: &RDoc) -> bool {
    match d {
        RDoc::Index(ix) => {
            for (i, s) in ix.sections.iter().enumerate() {
                if let Some(m) = &s.map {
                    if !well_formed(m) {
                        return false;
                    }
                    if let Some(next) = ix.sections.get(i + 1) {
                        if let Ok(f) = rflatten(m) {
                            for t in f.tokens {
                                let p = (t.gl + s.off.0, if t.gl == 0 { t.gc + s.off.1 } else { t.gc });
                                if p >= next.off {
                                    return false;
                                }
                            }
                        }
                    }
                }
            }
            ix.sections.windows(2).all(|w| w[0].off < w[1].off)
        }
        _ => true,
    }
}

fn queries(d: &RDoc) -> Vec<(u32, u32)> {
    let mut q = vec![(0, 0), (0, 1), (9, 9), (0, u32::MAX), (u32::MAX, 0)];
    if let RDoc::Index(ix) = d {
        for s in &ix.sections {
            let (l, c) = s.off;
            for dl in 0..=2u32 {
                for cc in [0, c.saturating_sub(1), c, c.saturating_add(1), c.saturating_add(2), c.saturating_add(3), c.saturating_add(4), c.saturating_add(7), c.saturating_add(0x1000_0000), u32::MAX] {
                    q.push((l.saturating_add(dl), cc));
                }
            }
            if l > 0 {
                q.push((l - 1, u32::MAX));
                q.push((l - 1, c.saturating_add(1)));
            }
        }
    }
    q.sort();
    q.dedup();
    q
}

fn has_unresolved(d: &RDoc) -> bool {
    match d {
        RDoc::Index(ix) => ix.sections.iter().any(|s| s.map.as_deref().map_or(true, has_unresolved)),
        _ => false,
    }
}

fn check_doc(d: &RDoc, how: usize) -> (Option<(String, String)>, bool) {
    if how >= 2 {
        return check_permuted(d, how);
    }
    let Ok(Some(DecodedMap::Index(smi))) = guarded(|| construct_doc(d, how)) else { return (None, false) };
    let tag = if how == 0 { "constructed" } else { "decoded" };
    let r = guarded(|| -> Option<(String, String)> {
        let model = rflatten(d);
        let flat = smi.flatten();
        let flat = match (model, flat) {
            (Err(()), Err(_)) => None,
            (Err(()), Ok(_)) => return Some(("flatten/ok-with-unresolved-section".into(), "flatten() = Ok although a section has no embedded map".into())),
            (Ok(_), Err(e)) => return Some(("flatten/error".into(), format!("flatten() = Err({e}) on a fully resolved index"))),
            (Ok(m), Ok(f)) => Some((m, f)),
        };
        if let Some((m, f)) = &flat {
            let real = obs_real(f);
            if !real.positions_sorted() {
                return Some(("flatten/not-ordered".into(), format!("flattened tokens not ordered: {:?}", real.tokens.iter().map(|t| (t.gl, t.gc)).collect::<Vec<_>>())));
            }
            let (mut a, mut b) = (real.tokens.clone(), m.tokens.clone());
            a.sort();
            b.sort();
            if a != b {
                let cls = if a.len() != b.len() {
                    "count"
                } else {
                    let (x, y) = a.iter().zip(&b).find(|(x, y)| x != y).unwrap();
                    if x.gl != y.gl {
                        "line-offset"
                    } else if x.gc != y.gc {
                        if y.gl == x.gl && m.tokens.iter().any(|t| t.gl == y.gl) { "column-offset" } else { "column" }
                    } else if x.range != y.range {
                        "range-flag"
                    } else if x.src.as_ref().map(|s| &s.0) != y.src.as_ref().map(|s| &s.0) {
                        "source-name"
                    } else if x.src.as_ref().map(|s| &s.3) != y.src.as_ref().map(|s| &s.3) {
                        "name"
                    } else {
                        "original-position"
                    }
                };
                return Some((format!("flatten/tokens/{cls}/{tag}"), format!("flatten() tokens: {a:?}\nexpected:        {b:?}")));
            }
            // contents and ignore list by source name
            let mut got: BTreeMap<String, (Option<String>, bool)> = BTreeMap::new();
            let ign: Vec<u32> = f.ignore_list().cloned().collect();
            for i in 0..f.get_source_count() {
                let name = f.get_source(i).unwrap_or("").to_string();
                if got.insert(name.clone(), (f.get_source_contents(i).map(str::to_string), ign.contains(&i))).is_some() {
                    return Some(("flatten/duplicate-source".into(), format!("flattened map lists source {name:?} twice")));
                }
            }
            for (name, (c, ig)) in &m.sources {
                match got.get(name) {
                    None => return Some(("flatten/source-missing".into(), format!("flattened map lacks source {name:?}; has {:?}", got.keys().collect::<Vec<_>>()))),
                    Some((gc, gi)) => {
                        if gc != c {
                            return Some((format!("flatten/contents/{tag}"), format!("source {name:?}: contents {gc:?}, first seen in the sections: {c:?}")));
                        }
                        if gi != ig {
                            return Some((format!("flatten/ignore-list/{tag}"), format!("source {name:?}: ignore-listed {gi}, in the sections: {ig}")));
                        }
                    }
                }
            }
            if got.len() != m.sources.len() {
                return Some(("flatten/extra-source".into(), format!("flattened sources {:?}, referenced in sections {:?}", got.keys().collect::<Vec<_>>(), m.sources.keys().collect::<Vec<_>>())));
            }
        }
        // lookups
        for q in queries(d) {
            let want = rlookup_doc(d, q);
            let got = smi.lookup_token(q.0, q.1).map(|t| hit_of(&t));
            match (&got, want.is_empty()) {
                (None, true) => {}
                (None, false) => return Some((format!("lookup/nothing-found/{tag}"), format!("index.lookup_token{q:?} = None, expected one of {want:?}"))),
                (Some(g), true) => return Some((format!("lookup/found-unexpectedly/{tag}"), format!("index.lookup_token{q:?} = {g:?}, expected nothing (no section at or before the query, unresolved section, or no token before it in the section)"))),
                (Some(g), false) => {
                    if !want.contains(g) {
                        let on_first_line = matches!(d, RDoc::Index(ix) if ix.sections.iter().any(|s| s.off.0 == q.0));
                        return Some((format!("lookup/wrong-token/{}/{tag}", if on_first_line { "section-first-line" } else { "later-line" }), format!("index.lookup_token{q:?} = {g:?}, expected one of {want:?}")));
                    }
                    if let Some((_, f)) = &flat {
                        match f.lookup_token(q.0, q.1).map(|t| hit_of(&t)) {
                            Some(h) if want.contains(&h) => {}
                            other => return Some((format!("agreement/flattened-map-differs/{tag}"), format!("index.lookup_token{q:?} = {g:?} but flatten().lookup_token = {other:?}"))),
                        }
                    }
                }
            }
        }
        None
    });
    match r {
        Ok(x) => (x, true),
        Err(p) => (Some((format!("panic/{}", panic_class(&p)), format!("panicked: {p}"))), true),
    }
}

/// The same index written with its section list reversed (how = 2) or rotated (how = 3). The format
/// asks for sections in offset order, so what a decoder makes of such a document is its own
/// business (sort, keep, refuse) and nothing is compared with the model; but if it hands out a map,
/// that map's own two views must agree: where the index finds a token, the flattened map finds the
/// same original location.
fn check_permuted(d: &RDoc, how: usize) -> (Option<(String, String)>, bool) {
    let RDoc::Index(ix) = d else { return (None, false) };
    if ix.sections.len() < 2 {
        return (None, false);
    }
    let mut p = ix.clone();
    if how == 2 {
        p.sections.reverse();
    } else {
        p.sections.rotate_left(1);
    }
    let text = rv3_write_doc(&RDoc::Index(p));
    let r = guarded(|| -> Option<(String, String)> {
        let Ok(DecodedMap::Index(smi)) = sourcemap::decode_slice(text.as_bytes()) else { return None };
        let Ok(f) = smi.flatten() else { return None };
        for q in queries(d) {
            let want = rlookup_doc(d, q);
            let Some(g) = smi.lookup_token(q.0, q.1).map(|t| hit_of(&t)) else { continue };
            let h = f.lookup_token(q.0, q.1).map(|t| hit_of(&t));
            let same = h.as_ref() == Some(&g) || (want.contains(&g) && h.as_ref().is_some_and(|h| want.contains(h)));
            if !same {
                return Some(("agreement/flattened-map-differs/sections-listed-out-of-order".into(), format!("document lists its sections out of offset order; decoded index.lookup_token{q:?} = {g:?} but its flatten().lookup_token = {h:?}\ndocument: {text}")));
            }
        }
        None
    });
    match r {
        Ok(x) => (x, true),
        Err(p) => (Some((format!("panic/{}", panic_class(&p)), format!("panicked on a document with sections out of order: {p}"))), true),
    }
}

fn make_doc(offs: &[usize], picks: &[usize], special: Option<(usize, usize)>) -> RDoc {
    let p = pool();
    let inner = RDoc::Index(RIndex {
        file: None,
        sections: vec![
            RSection { off: (0, 0), url: None, map: Some(Box::new(RDoc::Regular(p[1].clone()))) },
            RSection { off: (0, 9), url: None, map: Some(Box::new(RDoc::Regular(p[4].clone()))) },
            // an inner section that starts on a later line of the nested index, mid-line
            RSection { off: (1, 2), url: None, map: Some(Box::new(RDoc::Regular(p[1].clone()))) },
        ],
    });
    let herm = hermes_pool()[0].clone();
    let sections = offs
        .iter()
        .zip(picks)
        .enumerate()
        .map(|(i, (&o, &k))| {
            let map: Option<RDoc> = match special {
                Some((slot, 0)) if slot == i => Some(inner.clone()),
                Some((slot, 1)) if slot == i => Some(herm.clone()),
                Some((slot, 2)) if slot == i => None,
                _ => Some(RDoc::Regular(p[k].clone())),
            };
            RSection { off: OFFS[o], url: if map.is_none() { Some("http://u/x.map".into()) } else { None }, map: map.map(Box::new) }
        })
        .collect();
    RDoc::Index(RIndex { file: Some("bundle.js".into()), sections })
}

pub fn run(run: &mut Run) -> Finish {
    let tier = run.ctx.tier;
    let maxn = tier.pick(4usize, 6);
    let np = pool().len() as u64;
    let mut slice_no = 1;
    for n in 1..=maxn {
        let offsets = subsets_k(OFFS.len(), n);
        let no = offsets.len() as u64;
        let combos = np.pow(n as u32);
        // special variants: none, or one slot replaced by {nested index, Hermes, url-only}
        let specials = 1 + 3 * n as u64;
        run.par_slice(&format!("{n} section(s): every strictly increasing offset choice over 6 offsets x every assignment of the 12-map pool x {{plain, one slot nested index / Hermes / url-only}}, constructed and decoded, query grid around every offset"), slice_no, no * combos * specials, |idx, l| {
            let k = idx & ((1 << 40) - 1);
            let d = mixed_radix(k, &[specials, combos, no]);
            let picks = seq_of(d[1], np, n);
            let special = if d[0] == 0 { None } else { Some((((d[0] - 1) / 3) as usize, ((d[0] - 1) % 3) as usize)) };
            if special.is_some() && n == maxn && maxn >= 3 && d[1] % 8 != 0 {
                l.evals += 1; // thin the largest product: specials only for every 8th assignment
                return;
            }
            let doc = make_doc(&offsets[d[2] as usize], &picks, special);
            if !well_formed(&doc) {
                l.evals += 1;
                return;
            }
            for how in 0..4 {
                let (v, ran) = check_doc(&doc, how);
                if let Some((sig, what)) = v {
                    l.violation_sub(idx, how as u64, Viol::new(format!("C08/{sig}"), format!("{what}\nindex: {}", doc_brief(&doc)), json!({"how": how, "doc": serde_json::to_value(&doc).unwrap()})));
                }
                if ran {
                    l.case(true, h64(&(n, picks.clone(), special, has_unresolved(&doc))));
                }
            }
            if l.wants_sample(idx) {
                l.sample(idx, json!({"index": doc_brief(&doc), "queries": queries(&doc).len()}));
            }
        });
        slice_no += 1;
    }
    // many sections (anything done per batch of sections, or by bisecting a long section list)
    let many = [15usize, 16, 17, 33, 64, 65, 130];
    run.par_slice("many sections: 15/16/17/33/64/65/130 sections three lines apart (every second one starting mid-line), pool maps in rotation with three phases, constructed / decoded / listed out of order", 20, many.len() as u64 * 3, |idx, l| {
        let k = idx & ((1 << 40) - 1);
        let (n, phase) = (many[(k / 3) as usize], (k % 3) as usize);
        let p = pool();
        let sections = (0..n).map(|i| RSection { off: (3 * i as u32, if i % 2 == 1 { 2 } else { 0 }), url: None, map: Some(Box::new(RDoc::Regular(p[(i + phase) % p.len()].clone()))) }).collect();
        let doc = RDoc::Index(RIndex { file: Some("bundle.js".into()), sections });
        if !well_formed(&doc) {
            l.evals += 1;
            return;
        }
        for how in 0..4 {
            let (v, ran) = check_doc(&doc, how);
            if let Some((sig, what)) = v {
                l.violation_sub(idx, how as u64, Viol::new(format!("C08/{sig}/many-sections"), format!("{what}\nindex: {}", doc_brief(&doc)), json!({"how": how, "many": true, "doc": serde_json::to_value(&doc).unwrap()})));
            }
            if ran {
                l.case(true, h64(&("many", n, phase, how)));
            }
        }
    });
    // extreme coordinates that stay representable: a mid-line section far to the right whose map has a
    // token on a later line at a large column (not shifted), sections far down
    let big: Vec<RDoc> = {
        let m = |toks: Vec<RTok>| RDoc::Regular(RMap { sources: vec!["a".into()], names: vec![], tokens: toks, ..Default::default() });
        let sec = |off: (u32, u32), map: RDoc| RSection { off, url: None, map: Some(Box::new(map)) };
        vec![
            RDoc::Index(RIndex { file: None, sections: vec![sec((0, 1 << 31), m(vec![RTok::new(0, 5, Some((0, 1, 1, None))), RTok::new(1, 0x9000_0000, Some((0, 2, 2, None)))]))] }),
            RDoc::Index(RIndex { file: None, sections: vec![sec((0, 0), m(vec![RTok::new(0, 0, Some((0, 0, 0, None)))])), sec((1 << 31, 1 << 31), m(vec![RTok::new(0, (1 << 31) - 1, Some((0, 3, 3, None))), RTok::new(1, u32::MAX, Some((0, 4, 4, None)))]))] }),
            RDoc::Index(RIndex { file: None, sections: vec![sec((u32::MAX, 0), m(vec![RTok::new(0, u32::MAX, Some((0, 5, 5, None)))]))] }),
        ]
    };
    run.seq_slice("extreme coordinates: section offsets 2^31 and 2^32-1 with tokens whose flattened position stays within 32 bits", 21, |base, l| {
        for (j, doc) in big.iter().enumerate() {
            for how in 0..2 {
                let (v, ran) = check_doc(doc, how);
                if let Some((sig, what)) = v {
                    l.violation_sub(base, (j * 2 + how) as u64, Viol::new(format!("C08/{sig}"), format!("{what}\nindex: {}", doc_brief(doc)), json!({"how": how, "doc": serde_json::to_value(doc).unwrap()})));
                }
                if ran {
                    l.case(true, h64(&("extreme", j, how)));
                }
            }
        }
    });
    Finish {
        level: "exploration",
        rule: "E1: every index map of the stated space that satisfies the quantifier's well-formedness (strictly increasing offsets, each section's translated tokens before the next offset), built both through SourceMapIndex::new and by decoding the independent writer's document (and, for the agreement clause only, by decoding that document with its section list reversed and rotated). Oracles: flatten() equals RFlatten (line offset always, column offset on the section's first line only; source name, name, original position, range flag; ties as multiset; contents per source name = first seen; ignore-list membership; recursion into nested indexes; Err for an unresolved section); index.lookup_token(q) equals RIndexLookup (section with the greatest offset <= q, query made section-relative; any member of a tie accepted) on a grid around every offset; whenever the index finds a token the flattened map reports the same original location. Distinct by construction; non-trivial = well-formed index that was built; class = (sections, pool assignment, special slot).".into(),
        assumptions: vec!["tokens sharing one generated position: any of them is accepted as the lookup answer (unstable sort in flatten's builder)".into(), "sources of the flattened map are compared by name; their order is not asserted".into()],
        coverage_extra: json!({"max_sections": maxn, "pool": np}),
    }
}

pub fn recheck(case: &Value) -> Vec<Viol> {
    let Ok(d) = serde_json::from_value::<RDoc>(case["doc"].clone()) else { return vec![] };
    let how = case["how"].as_u64().unwrap_or(0) as usize;
    let suffix = if case["many"] == json!(true) { "/many-sections" } else { "" };
    check_doc(&d, how).0.map(|(s, w)| Viol::new(format!("C08/{s}{suffix}"), w, case.clone())).into_iter().collect()
}
