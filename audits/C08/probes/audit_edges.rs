use sourcemap::{DecodedMap, RawToken, SourceMap, SourceMapIndex, SourceMapSection};

fn tok(dl: u32, dc: u32, sl: u32, sc: u32, src: u32, range: bool) -> RawToken {
    RawToken {
        dst_line: dl,
        dst_col: dc,
        src_line: sl,
        src_col: sc,
        src_id: src,
        name_id: !0,
        is_range: range,
    }
}

fn map(src: &str, toks: Vec<RawToken>) -> DecodedMap {
    DecodedMap::Regular(SourceMap::new(
        None,
        toks,
        vec![],
        vec![src.into()],
        None,
    ))
}

fn sec(off: (u32, u32), m: DecodedMap) -> SourceMapSection {
    SourceMapSection::new(off, None, Some(m))
}

fn agree(idx: &SourceMapIndex, flat: &SourceMap, qs: &[(u32, u32)]) {
    for &(l, c) in qs {
        if let Some(t) = idx.lookup_token(l, c) {
            let f = flat.lookup_token(l, c).expect("flat finds nothing");
            assert_eq!(
                (t.get_source(), t.get_src_line(), t.get_src_col()),
                (f.get_source(), f.get_src_line(), f.get_src_col()),
                "at {}:{}",
                l,
                c
            );
        }
    }
}

#[test]
fn h1_extreme_offsets() {
    let m = u32::MAX;
    let idx = SourceMapIndex::new(
        None,
        vec![
            sec((0, 0), map("a", vec![tok(0, 0, 1, 1, 0, false), tok(5, 5, 2, 2, 0, false)])),
            sec((1 << 31, 1 << 31), map("b", vec![tok(0, 0, 3, 3, 0, false), tok(0, (1 << 31) - 1, 4, 4, 0, true), tok(1, m, 5, 5, 0, false)])),
            sec((m, m), map("c", vec![tok(0, 0, 6, 6, 0, true)])),
        ],
    );
    let flat = idx.flatten().unwrap();
    let got: Vec<_> = flat.tokens().map(|t| (t.get_dst(), t.get_src(), t.get_source().unwrap().to_string(), t.is_range())).collect();
    assert_eq!(
        got,
        vec![
            ((0, 0), (1, 1), "a".to_string(), false),
            ((5, 5), (2, 2), "a".to_string(), false),
            ((1 << 31, 1 << 31), (3, 3), "b".to_string(), false),
            ((1 << 31, m), (4, 4), "b".to_string(), true),
            (((1 << 31) + 1, m), (5, 5), "b".to_string(), false),
            ((m, m), (6, 6), "c".to_string(), true),
        ]
    );
    let qs = [
        (0, 0), (0, m), (5, 4), (5, 5), (5, m), (1 << 31, 0), (1 << 31, (1 << 31) - 1), (1 << 31, 1 << 31),
        (1 << 31, m - 1), (1 << 31, m), ((1 << 31) + 1, 0), ((1 << 31) + 1, m), (m, 0), (m, m - 1), (m, m), (m - 1, m),
    ];
    agree(&idx, &flat, &qs);
    assert_eq!(idx.lookup_token(m, m).unwrap().get_src(), (6, 6));
    assert_eq!(idx.lookup_token(m, m - 1).unwrap().get_src(), (5, 5));
    assert_eq!(idx.lookup_token(1 << 31, (1 << 31) - 1).unwrap().get_src(), (2, 2));
}

#[test]
fn h3_overflow_is_error_not_panic() {
    let m = u32::MAX;
    let idx = SourceMapIndex::new(None, vec![sec((m, 0), map("a", vec![tok(1, 0, 0, 0, 0, false)]))]);
    assert!(idx.flatten().is_err());
    let idx = SourceMapIndex::new(None, vec![sec((0, m), map("a", vec![tok(0, 1, 0, 0, 0, false)]))]);
    assert!(idx.flatten().is_err());
    // col overflow only matters on first line
    let idx = SourceMapIndex::new(None, vec![sec((0, m), map("a", vec![tok(1, 1, 0, 0, 0, false)]))]);
    let f = idx.flatten().unwrap();
    assert_eq!(f.get_token(0).unwrap().get_dst(), (1, 1));
    assert_eq!(idx.lookup_token(1, 1).unwrap().get_dst(), (1, 1));
    assert!(idx.lookup_token(0, m).is_none());
    assert!(idx.lookup_token(0, m - 1).is_none());
}

#[test]
fn h4_range_saturation() {
    let m = u32::MAX;
    let idx = SourceMapIndex::new(
        None,
        vec![sec((3, 10), map("a", vec![tok(0, 0, 7, m - 1, 0, true), tok(1, 2, 8, 8, 0, true)]))],
    );
    let flat = idx.flatten().unwrap();
    let qs = [(3, 9), (3, 10), (3, 11), (3, 12), (3, m), (4, 0), (4, 1), (4, 2), (4, 3), (4, m), (5, 0), (2, m)];
    agree(&idx, &flat, &qs);
    assert!(idx.lookup_token(3, 9).is_none());
    assert_eq!(idx.lookup_token(3, 11).unwrap().get_src(), (7, m));
    assert_eq!(idx.lookup_token(4, 1).unwrap().get_src(), (7, m - 1));
    assert_eq!(idx.lookup_token(4, 5).unwrap().get_src(), (8, 11));
    assert_eq!(idx.lookup_token(5, 0).unwrap().get_src(), (8, 8));
}

#[test]
fn h5_unsorted_json_sections_and_h6_many() {
    // build 200 sections in JSON in reverse order
    let mut secs = vec![];
    for i in (0..200u32).rev() {
        // section i at line i*2, col i ; one token "AAAA" -> (0,0)->(0,0) plus one on next line col 1
        secs.push(format!(
            r#"{{"offset":{{"line":{},"column":{}}},"map":{{"version":3,"sources":["s{}.js"],"names":[],"mappings":"AAAA;CACA"}}}}"#,
            i * 2,
            i,
            i
        ));
    }
    let json = format!(r#"{{"version":3,"sections":[{}]}}"#, secs.join(","));
    let idx = SourceMapIndex::from_slice(json.as_bytes()).unwrap();
    let offs: Vec<_> = idx.sections().map(|s| s.get_offset()).collect();
    let mut sorted = offs.clone();
    sorted.sort();
    assert_eq!(offs, sorted);
    let flat = idx.flatten().unwrap();
    assert_eq!(flat.get_token_count(), 400);
    for i in 0..200u32 {
        let name = format!("s{}.js", i);
        let t = idx.lookup_token(i * 2, i).unwrap();
        assert_eq!(t.get_source(), Some(&name[..]));
        assert_eq!(t.get_src(), (0, 0));
        let t = idx.lookup_token(i * 2 + 1, 1).unwrap();
        assert_eq!(t.get_source(), Some(&name[..]));
        assert_eq!(t.get_src(), (1, 0));
        let t = idx.lookup_token(i * 2 + 1, 0).unwrap();
        assert_eq!(t.get_src(), (0, 0));
        assert_eq!(t.get_source(), Some(&name[..]));
        if i > 0 {
            let prev = format!("s{}.js", i - 1);
            let t = idx.lookup_token(i * 2, i - 1).unwrap();
            assert_eq!(t.get_source(), Some(&prev[..]));
            assert_eq!(t.get_src(), (1, 0));
        } else {
            assert!(idx.lookup_token(0, 0).is_some());
        }
        let mut qs = vec![];
        for l in [i * 2, i * 2 + 1] {
            for c in [0, 1, i.saturating_sub(1), i, i + 1, u32::MAX] {
                qs.push((l, c));
            }
        }
        agree(&idx, &flat, &qs);
    }
}

#[test]
fn h13_empty_and_before_first() {
    let idx = SourceMapIndex::new(None, vec![sec((2, 3), map("a", vec![]))]);
    let f = idx.flatten().unwrap();
    assert_eq!(f.get_token_count(), 0);
    assert!(idx.lookup_token(0, 0).is_none());
    assert!(idx.lookup_token(2, 2).is_none());
    assert!(idx.lookup_token(2, 3).is_none());
    assert!(idx.lookup_token(9, 9).is_none());

    let idx = SourceMapIndex::new(None, vec![sec((2, 3), map("a", vec![tok(0, 0, 1, 1, 0, false)]))]);
    assert!(idx.lookup_token(2, 2).is_none());
    assert!(idx.lookup_token(1, 100).is_none());
    assert_eq!(idx.lookup_token(2, 3).unwrap().get_src(), (1, 1));
}

#[test]
fn unresolved_cases() {
    // unresolved at top, nested, after a resolved one, with empty token lists around
    let un = || SourceMapSection::new((9, 0), Some("u.map".into()), None);
    let idx = SourceMapIndex::new(None, vec![sec((0, 0), map("a", vec![])), un()]);
    assert!(idx.flatten().is_err());
    let inner = SourceMapIndex::new(None, vec![un()]);
    let idx = SourceMapIndex::new(None, vec![sec((0, 0), DecodedMap::Index(inner))]);
    assert!(idx.flatten().is_err());
    let inner = SourceMapIndex::new(None, vec![]);
    let idx = SourceMapIndex::new(None, vec![sec((0, 0), DecodedMap::Index(inner))]);
    assert_eq!(idx.flatten().unwrap().get_token_count(), 0);
    // JSON: url only
    let json = br#"{"version":3,"sections":[{"offset":{"line":0,"column":0},"url":"x.map"}]}"#;
    let idx = SourceMapIndex::from_slice(json).unwrap();
    assert!(idx.flatten().is_err());
    // JSON: map null
    let json = br#"{"version":3,"sections":[{"offset":{"line":0,"column":0},"map":null}]}"#;
    let idx = SourceMapIndex::from_slice(json).unwrap();
    assert!(idx.flatten().is_err());
}

#[test]
fn contents_and_ignore_transfer() {
    let json = br#"{"version":3,"sections":[
      {"offset":{"line":0,"column":0},"map":{"version":3,"sources":["a.js","b.js","c.js"],"sourcesContent":[null,"B0"],"names":["n"],"mappings":"AAAAA,CCAA,CCAA","ignoreList":[1]}},
      {"offset":{"line":0,"column":7},"map":{"version":3,"sourceRoot":"r","sources":["c.js","a.js","b.js","/c.js"],"sourcesContent":["rC","A1","B1","C1"],"names":["n"],"mappings":"AAAA,CCAA,CCAA,CCAA;ADAA","ignoreList":[0,3]}},
      {"offset":{"line":5,"column":7},"map":{"version":3,"sources":["a.js","c.js"],"sourcesContent":["A2","C2"],"names":[],"mappings":"AAAA,CCAA","ignoreList":[0]}}
    ]}"#;
    let idx = SourceMapIndex::from_slice(json).unwrap();
    let f = idx.flatten().unwrap();
    let srcs: Vec<_> = f.sources().collect();
    assert_eq!(srcs, vec!["a.js", "b.js", "c.js", "r/c.js", "r/a.js", "r/b.js", "/c.js"]);
    let contents: Vec<_> = (0..7).map(|i| f.get_source_contents(i)).collect();
    assert_eq!(
        contents,
        vec![Some("A2"), Some("B0"), Some("C2"), Some("rC"), Some("A1"), Some("B1"), Some("C1")]
    );
    let ign: Vec<_> = f.ignore_list().copied().collect();
    assert_eq!(ign, vec![0, 1, 3, 6]);
    let toks: Vec<_> = f.tokens().map(|t| (t.get_dst(), t.get_source().unwrap().to_string(), t.get_name().map(|s| s.to_string()))).collect();
    println!("{:?}", toks);
    assert_eq!(toks[0], ((0, 0), "a.js".to_string(), Some("n".to_string())));
    assert_eq!(toks[3].0, (0, 7));
    assert_eq!(toks[6].0, (0, 10));
    assert_eq!(toks[7], ((1, 0), "r/b.js".to_string(), None));
    assert_eq!(toks[8].0, (5, 7));
    assert_eq!(toks[9].0, (5, 8));
}
